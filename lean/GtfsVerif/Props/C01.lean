import GtfsVerif.Model.Static
import GtfsVerif.Gen.Columns
import GtfsVerif.Gen.FileTable
import GtfsVerif.Lemmas.CsvRT
import GtfsVerif.Lemmas.Decimal
import GtfsVerif.Lemmas.Float
import GtfsVerif.Lemmas.FloatUnique
/-! # C01 — static parse transcribes every valid row faithfully, whatever the presentation

Model: `Gtfs.Csv.readFile` (byte-level reader incl. BOM), `Gtfs.Static.parse` and the ten row
functions (Model/Static.lean). Ties to the source, re-checked on every run: the column names and
required flags of every row loop (`Gen.Columns`), the file table (`Gen.FileTable`, which the model's
`runTable` iterates directly) and the enum decoders (`Gen.Enums`, which the row functions call).
The composition "ten files of a well-formed feed give exactly the expected entities" is not one
theorem; it is delivered as the per-row transcription theorems below plus the correspondence, in
which the oracle compares the result field by field with the generated cells (see evidence.partial). -/
namespace Gtfs.Static

/-- two lists have the same elements -/
def sameSet {α} [BEq α] (a b : List α) : Bool := a.all (b.contains ·) && b.all (a.contains ·)

/-- the source's columns **cover** the model's: every column the model reads is read by the source with the same
    required flag, and the source requires nothing the model does not (a further *optional* column in the source –
    a new field of the result – is no concern of this property: it cannot change the acceptance of a row or any
    existing field) -/
def covers (src model : List (Str × Bool)) : Bool :=
  model.all (src.contains ·) && (src.filter (·.2)).all (model.contains ·)

/-! ## the columns each row loop reads (source = model), as sets with their required flags -/

def agencyColumns : List (Str × Bool) := [(c_agency_id, false), (c_agency_name, true), (c_agency_url, true), (c_agency_timezone, true), (c_agency_lang, false), (c_agency_phone, false), (c_agency_fare_url, false), (c_agency_email, false)]
theorem C01_columns_agency : covers Gen.Columns.parseAgencies agencyColumns = true ∧ Gen.Columns.parseAgencies_checksMissingColumns = true := by decide

def routesColumns : List (Str × Bool) := [(c_route_id, true), (c_agency_id, false), (c_route_color, false), (c_route_text_color, false), (c_route_short_name, false), (c_route_long_name, false), (c_route_desc, false), (c_route_type, true), (c_route_url, false), (c_route_sort_order, false), (c_continuous_pickup, false), (c_continuous_drop_off, false)]
theorem C01_columns_routes : covers Gen.Columns.parseRoutes routesColumns = true ∧ Gen.Columns.parseRoutes_checksMissingColumns = true := by decide

def stopsColumns : List (Str × Bool) := [(c_stop_id, true), (c_stop_code, false), (c_stop_name, false), (c_stop_desc, false), (c_zone_id, false), (c_stop_lon, false), (c_stop_lat, false), (c_stop_url, false), (c_location_type, false), (c_stop_timezone, false), (c_wheelchair_boarding, false), (c_platform_code, false), (c_parent_station, false)]
theorem C01_columns_stops : covers Gen.Columns.parseStops stopsColumns = true ∧ Gen.Columns.parseStops_checksMissingColumns = true := by decide

def transfersColumns : List (Str × Bool) := [(c_from_stop_id, true), (c_to_stop_id, true), (c_transfer_type, false), (c_min_transfer_time, false)]
theorem C01_columns_transfers : covers Gen.Columns.parseTransfers transfersColumns = true ∧ Gen.Columns.parseTransfers_checksMissingColumns = true := by decide

def calendarColumns : List (Str × Bool) := [(c_start_date, true), (c_end_date, true), (c_service_id, true), (c_monday, true), (c_tuesday, true), (c_wednesday, true), (c_thursday, true), (c_friday, true), (c_saturday, true), (c_sunday, true)]
theorem C01_columns_calendar : covers Gen.Columns.parseCalendar calendarColumns = true ∧ Gen.Columns.parseCalendar_checksMissingColumns = true := by decide

def calendarDatesColumns : List (Str × Bool) := [(c_service_id, true), (c_date, true), (c_exception_type, true)]
theorem C01_columns_calendarDates : covers Gen.Columns.parseCalendarDates calendarDatesColumns = true ∧ Gen.Columns.parseCalendarDates_checksMissingColumns = true := by decide

def tripsColumns : List (Str × Bool) := [(c_route_id, true), (c_service_id, true), (c_trip_id, true), (c_trip_headsign, false), (c_trip_short_name, false), (c_direction_id, false), (c_block_id, false), (c_wheelchair_accessible, false), (c_bikes_allowed, false), (c_shape_id, false)]
theorem C01_columns_trips : covers Gen.Columns.parseScheduledTrips tripsColumns = true ∧ Gen.Columns.parseScheduledTrips_checksMissingColumns = true := by decide

def stopTimesColumns : List (Str × Bool) := [(c_stop_id, true), (c_stop_sequence, true), (c_trip_id, true), (c_arrival_time, false), (c_departure_time, false), (c_stop_headsign, false), (c_pickup_type, false), (c_drop_off_type, false), (c_continuous_pickup, false), (c_continuous_drop_off, false), (c_shape_dist_traveled, false), (c_timepoint, false)]
theorem C01_columns_stopTimes : covers Gen.Columns.parseScheduledStopTimes stopTimesColumns = true ∧ Gen.Columns.parseScheduledStopTimes_checksMissingColumns = true := by decide

def shapesColumns : List (Str × Bool) := [(c_shape_id, true), (c_shape_pt_lat, true), (c_shape_pt_lon, true), (c_shape_pt_sequence, true), (c_shape_dist_traveled, false)]
theorem C01_columns_shapes : covers Gen.Columns.parseShapes shapesColumns = true ∧ Gen.Columns.parseShapes_checksMissingColumns = true := by decide

def frequenciesColumns : List (Str × Bool) := [(c_trip_id, true), (c_start_time, true), (c_end_time, true), (c_headway_secs, true), (c_exact_times, false)]
theorem C01_columns_frequencies : covers Gen.Columns.parseFrequencies frequenciesColumns = true ∧ Gen.Columns.parseFrequencies_checksMissingColumns = true := by decide

/-- the required columns of every file are the model's (as sets; for agency.txt in declaration order, the order in
    which its `MissingColumns` / missing-values warnings list them) -/
theorem C01_required_columns :
    (Gen.Columns.parseAgencies.filter (·.2)).map (·.1) = agencyRequired ∧
    sameSet ((Gen.Columns.parseRoutes.filter (·.2)).map (·.1)) routeRequired = true ∧
    sameSet ((Gen.Columns.parseStops.filter (·.2)).map (·.1)) [c_stop_id] = true ∧
    sameSet ((Gen.Columns.parseTransfers.filter (·.2)).map (·.1)) [c_from_stop_id, c_to_stop_id] = true ∧
    sameSet ((Gen.Columns.parseCalendar.filter (·.2)).map (·.1)) calendarRequired = true ∧
    sameSet ((Gen.Columns.parseCalendarDates.filter (·.2)).map (·.1)) calendarDatesRequired = true ∧
    sameSet ((Gen.Columns.parseShapes.filter (·.2)).map (·.1)) shapeRequired = true ∧
    sameSet ((Gen.Columns.parseScheduledTrips.filter (·.2)).map (·.1)) tripRequired = true ∧
    sameSet ((Gen.Columns.parseFrequencies.filter (·.2)).map (·.1)) freqRequired = true ∧
    sameSet ((Gen.Columns.parseScheduledStopTimes.filter (·.2)).map (·.1)) stopTimeRequired = true := by decide

/-- the ten files the model's actions know -/
def tenFiles : List Str := [f_agency, f_routes, f_stops, f_transfers, f_calendar, f_calendar_dates, f_shapes, f_trips, f_frequencies, f_stop_times]

/-- the file table: the ten files the model's actions know stand in it, required/optional as documented, in an
    order in which every file is parsed after the files it refers to; a further entry (a file the library has
    learnt to read since) is optional – it has no action in the model and cannot touch the ten collections -/
theorem C01_file_table :
    Gen.FileTable.files.filter (fun p => tenFiles.contains p.1) =
      [(f_agency, false), (f_routes, false), (f_stops, false), (f_transfers, true), (f_calendar, true),
       (f_calendar_dates, true), (f_shapes, true), (f_trips, false), (f_frequencies, true), (f_stop_times, false)] ∧
    (Gen.FileTable.files.filter (fun p => !tenFiles.contains p.1)).all (·.2) = true := by decide

/-! ## enums by their GTFS digit (over the regenerated decoders) -/

theorem C01_enum_digits :
    (∀ d ∈ [0, 1, 2, 3, 4, 5, 6, 7, 11, 12], Gen.Enums.parseRouteType_GTFSStatic (natToDec d) = d) ∧
    (∀ d ∈ [0, 1, 2, 3], Gen.Enums.parsePickupDropOffPolicy (natToDec d) = d) ∧
    (∀ d ∈ [0, 1, 2, 3], Gen.Enums.parseTransferType (natToDec d) = d) ∧
    (∀ d ∈ [0, 1, 2], Gen.Enums.parseWheelchairBoarding (natToDec d) = d) ∧
    (∀ d ∈ [0, 1, 2], Gen.Enums.parseBikesAllowed (natToDec d) = d) ∧
    (∀ d ∈ [0, 1], Gen.Enums.parseExactTimes (natToDec d) = d) ∧
    (∀ d ∈ [1, 2, 3, 4], ∀ p, Gen.Enums.parseStopType (natToDec d) p = d) ∧
    Gen.Enums.parseStopType [48] false = Gen.Enums.StopType_Stop ∧ Gen.Enums.parseStopType [48] true = Gen.Enums.StopType_Platform ∧
    Gen.Enums.parseDirectionID_GTFSStatic [48] = Gen.Enums.DirectionID_False ∧
    Gen.Enums.parseDirectionID_GTFSStatic [49] = Gen.Enums.DirectionID_True := by decide

/-! ## times and dates -/

/-- the digits of `HH:MM:SS` (any number of hour digits, two for minutes and seconds) are read as
    that many seconds, hours past 24 included -/
theorem C01_time_two_digit (h1 h2 m1 m2 s1 s2 : Nat) (a1 : h1 < 10) (a2 : h2 < 10) (a3 : m1 < 10) (a4 : m2 < 10) (a5 : s1 < 10) (a6 : s2 < 10) :
    parseGtfsTime [digitChar h1, digitChar h2, 58, digitChar m1, digitChar m2, 58, digitChar s1, digitChar s2]
      = some ((((10 * h1 + h2) * 60 + (10 * m1 + m2)) * 60 + (10 * s1 + s2) : Nat) : Int) := by
  have d58 : isDigit 58 = false := by decide
  simp only [parseGtfsTime, List.length_cons, List.length_nil, gtfsTimeLoop, digitChar_isDigit, if_true, d58,
    digitVal_digitChar, Nat.mod_eq_of_lt, a1, a2, a3, a4, a5, a6]
  simp

theorem C01_time_past_24 : parseGtfsTime [50, 53, 58, 49, 48, 58, 48, 48] = some 90600 ∧ parseGtfsTime [49, 50, 51, 58, 48, 48, 58, 48, 48] = some 442800 := by decide

/-- a valid YYYYMMDD date is the civil day it names (the zone it is expressed in is reported as
    `Result.zone` = the first agency's resolved zone, UTC when unknown) -/
theorem C01_date_valid : Civil.parseDate8 [50, 48, 50, 52, 48, 50, 50, 57] = some 19782 ∧ Civil.parseDate8 [50, 48, 50, 51, 48, 50, 50, 57] = none := by decide

/-- **every eight-digit date** (all 10⁸ of them, by arithmetic, not enumeration): `YYYYMMDD` with a month
    1–12 and a day that exists in that month of that year is the civil day it names; every other
    eight-digit string is rejected – no normalisation, no roll-over into the next month -/
theorem C01_date_all_digits (a b c d e f g h : Nat) (ha : a < 10) (hb : b < 10) (hc : c < 10) (hd : d < 10)
    (he : e < 10) (hf : f < 10) (hg : g < 10) (hh : h < 10) :
    let y : Nat := 1000 * a + 100 * b + 10 * c + d
    let m : Nat := 10 * e + f
    let day : Nat := 10 * g + h
    Civil.parseDate8 [digitChar a, digitChar b, digitChar c, digitChar d, digitChar e, digitChar f, digitChar g, digitChar h]
      = if 1 ≤ m ∧ m ≤ 12 ∧ 1 ≤ day ∧ day ≤ Civil.daysInMonth y m
        then some (Civil.firstOfMonth y m + ((day : Int) - 1)) else none := by
  intro y m day
  have hy : digitsVal [digitChar a, digitChar b, digitChar c, digitChar d] = y := by
    simp [digitsVal, digitVal_digitChar, Nat.mod_eq_of_lt ha, Nat.mod_eq_of_lt hb, Nat.mod_eq_of_lt hc, Nat.mod_eq_of_lt hd, y]; omega
  have hm : digitsVal [digitChar e, digitChar f] = m := by
    simp [digitsVal, digitVal_digitChar, Nat.mod_eq_of_lt he, Nat.mod_eq_of_lt hf, m]
  have hday : digitsVal [digitChar g, digitChar h] = day := by
    simp [digitsVal, digitVal_digitChar, Nat.mod_eq_of_lt hg, Nat.mod_eq_of_lt hh, day]
  simp only [Civil.parseDate8, Civil.allDigits, List.length_cons, List.length_nil, List.all_cons, List.all_nil, digitChar_isDigit,
    List.take, List.drop, hy, hm, hday, Bool.and_self, decide_true, if_true, Bool.and_eq_true, decide_eq_true_eq]
  by_cases hv : 1 ≤ m ∧ m ≤ 12 ∧ 1 ≤ day ∧ day ≤ Civil.daysInMonth y m
  · obtain ⟨h1, h2, h3, h4⟩ := hv
    simp [h1, h2, h3, h4]
  · simp only [hv, if_false]
    split
    · rename_i hcond
      exact absurd ⟨hcond.1.1.1, hcond.1.1.2, hcond.1.2, hcond.2⟩ hv
    · rfl

/-- anything that is not eight bytes long is not a date -/
theorem C01_date_not_eight (s : Str) (h : s.length ≠ 8) : Civil.parseDate8 s = none := by
  simp [Civil.parseDate8, h]

/-- anything with a non-digit byte is not a date -/
theorem C01_date_non_digit (s : Str) (h : Civil.allDigits s = false) : Civil.parseDate8 s = none := by
  simp [Civil.parseDate8, h]

/-- the day count of a month never reaches 32, so `20230230`, `20230431`, `20250229` are rejected -/
example : Civil.parseDate8 [50, 48, 50, 51, 48, 50, 51, 48] = none ∧ Civil.parseDate8 [50, 48, 50, 51, 48, 52, 51, 49] = none ∧
    Civil.parseDate8 [50, 48, 50, 53, 48, 50, 50, 57] = none ∧ Civil.parseDate8 [50, 48, 50, 52, 48, 50, 50, 57] = some 19782 := by decide

theorem C01_zone_rule (env : Env) (f : Csv.File) (st : St) :
    (action env f_agency f st).res.zone =
      (match (parseAgencies f).1 with
       | a :: _ => (env.zoneOf a.timezone).getD utc
       | [] => utc) := by
  simp only [action, beq_self_eq_true, if_true, utc]
  cases (parseAgencies f).1 <;> rfl

/-! ## every field carries the value written under its column header -/

/-- column lookup is by header name: it does not depend on where the column stands, nor on what
    other columns (with other names) surround it -/
theorem C01_cell_by_name (hdr row : List Str) (name : Str) (k : Nat) (hk : colIdx hdr name = some k) :
    optRead hdr row name = row.getD k [] := by
  simp [optRead, cell, hk]

theorem C01_route_fields (hdr row : List Str) (ags : List Agency) (r : Route) (h : routeOfRow hdr row ags = some r) :
    r.id = optRead hdr row c_route_id ∧ r.color = readOr hdr row c_route_color d_FFFFFF ∧
    r.textColor = readOr hdr row c_route_text_color d_000000 ∧ r.shortName = optRead hdr row c_route_short_name ∧
    r.longName = optRead hdr row c_route_long_name ∧ r.description = optRead hdr row c_route_desc ∧
    r.type = Gen.Enums.parseRouteType_GTFSStatic (optRead hdr row c_route_type) ∧ r.url = optRead hdr row c_route_url ∧
    r.sortOrder = parseSortOrder (optRead hdr row c_route_sort_order) := by
  unfold routeOfRow at h
  simp only at h
  split at h
  · simp at h
  · split at h
    · simp at h
    · simp only [Option.some.injEq] at h; subst h; simp

/-- the agency a route refers to is the first agency carrying the row's agency_id (or the unique
    agency when the cell is blank) -/
theorem C01_route_agency (hdr row : List Str) (ags : List Agency) (r : Route) (h : routeOfRow hdr row ags = some r)
    (hne : optRead hdr row c_agency_id ≠ []) :
    ∃ a, ags[r.agency]? = some a ∧ a.id = optRead hdr row c_agency_id := by
  unfold routeOfRow at h
  simp only [hne, ne_eq, not_false_eq_true, if_true] at h
  split at h
  · simp at h
  · rename_i ai hai
    split at h
    · simp at h
    · simp only [Option.some.injEq] at h; subst h
      simp only [findIdx] at hai
      obtain ⟨hlt, hp, _⟩ := List.findIdx?_eq_some_iff_getElem.mp hai
      exact ⟨ags[ai], by simp [hlt], by simpa using hp⟩

theorem C01_trip_fields (hdr row : List Str) (rs : List Route) (ss : List Service) (shs : List Shape) (t : Trip)
    (h : tripOfRow hdr row rs ss shs = some t) :
    t.id = optRead hdr row c_trip_id ∧ t.headsign = optRead hdr row c_trip_headsign ∧ t.shortName = optRead hdr row c_trip_short_name ∧
    t.direction = Gen.Enums.parseDirectionID_GTFSStatic (readOr hdr row c_direction_id []) ∧ t.blockId = optRead hdr row c_block_id ∧
    t.wheelchairAccessible = Gen.Enums.parseWheelchairBoarding (optRead hdr row c_wheelchair_accessible) ∧
    t.bikesAllowed = Gen.Enums.parseBikesAllowed (readOr hdr row c_bikes_allowed []) ∧ t.stopTimes = [] ∧ t.frequencies = [] := by
  unfold tripOfRow at h
  split at h
  · simp at h
  · split at h
    · simp only [Option.some.injEq] at h; subst h; simp
    · simp at h

theorem C01_stop_fields (env : Env) (hdr row : List Str) (s : Stop) (p : Str) (h : stopOfRow env hdr row = some (s, p)) :
    s.id = optRead hdr row c_stop_id ∧ s.code = optRead hdr row c_stop_code ∧ s.name = optRead hdr row c_stop_name ∧
    s.description = optRead hdr row c_stop_desc ∧ s.zoneId = optRead hdr row c_zone_id ∧
    s.longitude = env.floatOf (optRead hdr row c_stop_lon) ∧ s.latitude = env.floatOf (optRead hdr row c_stop_lat) ∧
    s.url = optRead hdr row c_stop_url ∧ s.timezone = optRead hdr row c_stop_timezone ∧ s.platformCode = optRead hdr row c_platform_code ∧
    p = optRead hdr row c_parent_station := by
  unfold stopOfRow at h
  simp only at h
  split at h
  · simp at h
  · simp only [Option.some.injEq, Prod.mk.injEq] at h; obtain ⟨h1, h2⟩ := h; subst h1 h2; simp

/-- one entity per accepted row, in row order: the collections are `filterMap`s of the rows -/
theorem C01_one_entity_per_row (f : Csv.File) (ags : List Agency) (h : missingCols f.header routeRequired = []) :
    parseRoutes f ags = f.rows.filterMap (fun row => routeOfRow f.header row ags) ∧
    ((∀ row ∈ f.rows, (routeOfRow f.header row ags).isSome) → (parseRoutes f ags).length = f.rows.length) := by
  constructor
  · simp [parseRoutes, h]
  · intro hall
    simp only [parseRoutes, h, ne_eq, not_true_eq_false, if_false]
    have : ∀ l : List (List Str), (∀ row ∈ l, (routeOfRow f.header row ags).isSome) →
        (l.filterMap fun row => routeOfRow f.header row ags).length = l.length := by
      intro l
      induction l with
      | nil => intro _; rfl
      | cons a r ih =>
        intro hl
        have ha := hl a (by simp)
        obtain ⟨x, hx⟩ := Option.isSome_iff_exists.mp ha
        simp [List.filterMap_cons, hx, ih (fun row hr => hl row (by simp [hr]))]
    exact this _ hall

/-! ## presentation independence at the byte level -/

/-- **quoting, LF/CRLF per record and the final newline are irrelevant**: for every such choice the
    reader returns exactly the records written (fields free of CR; unquoted fields free of
    comma, quote and LF; a record consisting of one empty field is quoted) -/
theorem C01_csv_presentation (file : List (List (Bool × Csv.Field) × Bool)) (trailing : Bool)
    (hv : ∀ p ∈ file, Csv.ValidRecord p.1) :
    Csv.read (Csv.writeFile file trailing) = some (file.map (fun p => p.1.map Prod.snd)) :=
  Csv.read_writeFile file trailing hv

/-- **a UTF-8 byte-order mark is irrelevant** -/
theorem C01_bom (bytes : List UInt8) : Csv.stripBom (0xEF :: 0xBB :: 0xBF :: bytes) = bytes := rfl

/-- **member order and extra members are irrelevant**: a file is looked up by exact name (the last
    member of that name), so members with other names, wherever they stand, change nothing -/
theorem C01_member_lookup (a b : List (Str × Str)) (extra : Str × Str) (name : Str) (h : extra.1 ≠ name) :
    member (a ++ extra :: b) name = member (a ++ b) name := by
  unfold member
  have : (extra.1 == name) = false := by simpa using h
  simp [List.filter_append, List.filter_cons, this]

/-! ## non-vacuity -/
example : Csv.ValidRecord [(true, [97, 44, 98]), (false, [99])] := by
  refine ⟨?_, by simp, by simp⟩
  intro p hp
  simp only [List.mem_cons, List.mem_nil_iff, or_false] at hp
  rcases hp with rfl | rfl <;> simp [Csv.ValidField, Csv.plain, Csv.cr, Csv.comma, Csv.quote, Csv.lf]

/-! ## the ten-file composition -/

/-- a member as the parser reads it: looked up by name, read as CSV -/
def fileOf (members : List (Str × Str)) (name : Str) : Option Csv.File :=
  (member members name).bind Csv.readFile

/-- a feed is *readable* when every file of the table that is present reads as CSV without a reader
    error, and every file that is not optional is present -/
def Readable (members : List (Str × Str)) (table : List (Str × Bool)) : Prop :=
  ∀ p ∈ table,
    match member members p.1 with
    | none => p.2 = true
    | some bytes => ∃ f, Csv.readFile bytes = some f ∧ f.bodyError = false

/-- the state the table's actions compose, file by file in table order, from the files read -/
def composeSt (env : Env) (fo : Str → Option Csv.File) : List (Str × Bool) → St → St
  | [], st => st
  | (name, _) :: rest, st =>
    composeSt env fo rest (postProcess name (match fo name with | some f => action env name f st | none => st))

/-- **ParseStatic on a readable feed is the composition of the per-file row functions**, each applied
    to the file of its name, in table order (so every file is parsed after the files it refers to) -/
theorem parse_readable (env : Env) (members : List (Str × Str)) (table : List (Str × Bool)) (st : St)
    (h : Readable members table) :
    runTable env members table st = .ok (composeSt env (fileOf members) table st).res := by
  induction table generalizing st with
  | nil => rfl
  | cons p rest ih =>
    obtain ⟨name, optional⟩ := p
    have hp := h (name, optional) (by simp)
    have hrest : Readable members rest := fun q hq => h q (by simp [hq])
    simp only [runTable, composeSt, fileOf]
    cases hm : member members name with
    | none =>
      simp only [hm] at hp
      simp only [hp, if_true, Option.bind_none]
      exact ih _ hrest
    | some bytes =>
      simp only [hm] at hp
      obtain ⟨f, hf, hbe⟩ := hp
      simp only [hf, hbe, Bool.and_false, Bool.false_eq_true, if_false, Option.bind_some]
      exact ih _ hrest

theorem C01_composition (env : Env) (members : List (Str × Str)) (h : Readable members Gen.FileTable.files) :
    parse env members = .ok (composeSt env (fileOf members) Gen.FileTable.files { res := { zone := utc } }).res :=
  parse_readable env members _ _ h


theorem table_eq : Gen.FileTable.files.filter (fun p => tenFiles.contains p.1) =
    [(f_agency, false), (f_routes, false), (f_stops, false), (f_transfers, true), (f_calendar, true),
    (f_calendar_dates, true), (f_shapes, true), (f_trips, false), (f_frequencies, true), (f_stop_times, false)] := by decide

theorem not_known {name : Str} (h : tenFiles.contains name = false) :
    (name == f_agency) = false ∧ (name == f_routes) = false ∧ (name == f_stops) = false ∧ (name == f_transfers) = false ∧
    (name == f_calendar) = false ∧ (name == f_calendar_dates) = false ∧ (name == f_shapes) = false ∧ (name == f_trips) = false ∧
    (name == f_frequencies) = false ∧ (name == f_stop_times) = false := by
  simp only [tenFiles, List.contains_cons, List.contains_nil, Bool.or_false, Bool.or_eq_false_iff] at h
  obtain ⟨h1, h2, h3, h4, h5, h6, h7, h8, h9, h10⟩ := h
  exact ⟨h1, h2, h3, h4, h5, h6, h7, h8, h9, h10⟩

/-- a table entry the model has no action for is a no-op of the composition -/
theorem action_unknown (env : Env) {name : Str} (h : tenFiles.contains name = false) (f : Csv.File) (st : St) :
    action env name f st = st := by
  obtain ⟨h1, h2, h3, h4, h5, h6, h7, h8, h9, h10⟩ := not_known h
  simp [action, h1, h2, h3, h4, h5, h6, h7, h8, h9, h10]

theorem postProcess_unknown {name : Str} (h : tenFiles.contains name = false) (st : St) : postProcess name st = st := by
  simp [postProcess, (not_known h).2.2.2.2.2.1]

/-- the composition only depends on the entries of the ten files -/
theorem composeSt_filter (env : Env) (fo : Str → Option Csv.File) (table : List (Str × Bool)) (st : St) :
    composeSt env fo table st = composeSt env fo (table.filter (fun p => tenFiles.contains p.1)) st := by
  induction table generalizing st with
  | nil => rfl
  | cons p rest ih =>
    obtain ⟨name, opt⟩ := p
    by_cases hk : tenFiles.contains name = true
    · simp only [List.filter_cons, hk, if_true, composeSt]
      exact ih _
    · have hk' : tenFiles.contains name = false := by simpa using hk
      simp only [List.filter_cons, hk', Bool.false_eq_true, if_false, composeSt]
      rw [← ih]
      cases fo name with
      | none => rw [postProcess_unknown hk']
      | some f => simp only [action_unknown env hk', postProcess_unknown hk']

/-- …written out for a feed in which all ten files are present: every collection is the row function
    of its file applied to the collections it refers to -/
theorem C01_composition_explicit (env : Env) (fo : Str → Option Csv.File)
    (fa fr fs ft fc fcd fsh ftr ff fst : Csv.File)
    (h1 : fo f_agency = some fa) (h2 : fo f_routes = some fr) (h3 : fo f_stops = some fs) (h4 : fo f_transfers = some ft)
    (h5 : fo f_calendar = some fc) (h6 : fo f_calendar_dates = some fcd) (h7 : fo f_shapes = some fsh) (h8 : fo f_trips = some ftr)
    (h9 : fo f_frequencies = some ff) (h10 : fo f_stop_times = some fst) :
    (composeSt env fo Gen.FileTable.files { res := { zone := utc } }).res =
      let ag := parseAgencies fa
      let routes := parseRoutes fr ag.1
      let stops := parseStops env fs
      let services := servicesOf (parseCalendarDates fcd (parseCalendar fc []))
      let shapes := parseShapes env fsh
      { agencies := ag.1, warnings := ag.2,
        zone := (match ag.1 with | a :: _ => (env.zoneOf a.timezone).getD [85, 84, 67] | [] => [85, 84, 67]),
        routes := routes, stops := stops, transfers := parseTransfers ft stops, services := services, shapes := shapes,
        trips := addStopTimes env fst stops (addFrequencies ff (parseTrips ftr routes services shapes)) } := by
  rw [composeSt_filter, table_eq]
  simp only [composeSt, h1, h2, h3, h4, h5, h6, h7, h8, h9, h10]
  have e : ∀ a b : Str, (a == b) = decide (a = b) := fun a b => by
    cases h : decide (a = b) <;> simp_all
  simp [action, postProcess, e, f_agency, f_routes, f_stops, f_transfers, f_calendar, f_calendar_dates, f_shapes, f_trips, f_frequencies, f_stop_times]
  cases (parseAgencies fa).fst <;> rfl


theorem takeWhile_all {α} (p : α → Bool) (l : List α) (h : ∀ x ∈ l, p x = true) : l.takeWhile p = l := by
  induction l with
  | nil => rfl
  | cons x r ih => simp [List.takeWhile_cons, h x (by simp), ih (fun y hy => h y (by simp [hy]))]

/-- **a table written as CSV, in any presentation, is read back as its header and rows**: whatever the
    quoting, the line ending of each record and the final newline (and with or without a byte-order
    mark), `csv.New` and the row loop see the header and exactly the rows written, without a reader
    error – provided every row has as many cells as the header (encoding/csv's rule) -/
theorem C01_readFile_presented (file : List (List (Bool × Csv.Field) × Bool)) (trailing : Bool)
    (hv : ∀ p ∈ file, Csv.ValidRecord p.1) (hdr : List Str) (rows : List (List Str))
    (hfile : file.map (fun p => p.1.map Prod.snd) = hdr :: rows) (hw : ∀ r ∈ rows, r.length = hdr.length) :
    Csv.readFile (0xEF :: 0xBB :: 0xBF :: Csv.writeFile file trailing) = some ⟨hdr, rows, false⟩ := by
  unfold Csv.readFile
  rw [C01_bom]
  have h := Csv.run_file [] file trailing hv
  simp only [List.nil_append, hfile] at h
  simp only [Csv.readAll, h]
  have ht : rows.takeWhile (fun r => r.length == hdr.length) = rows :=
    takeWhile_all _ _ (fun r hr => by simp [hw r hr])
  simp [ht]

/-! ## per-row transcription of the remaining row functions -/

/-- (that the two stops are the ones named by the row is `C03_transfer_stops`) -/
theorem C01_transfer_fields (hdr row : List Str) (stops : List Stop) (t : Transfer) (h : transferOfRow hdr row stops = some t) :
    t.type = Gen.Enums.parseTransferType (optRead hdr row c_transfer_type) ∧
    t.minTransferTime = parseInt32 (optRead hdr row c_min_transfer_time) := by
  unfold transferOfRow at h
  split at h
  · simp at h
  · split at h
    · split at h
      · simp at h
      · simp only [Option.some.injEq] at h; subst h
        exact ⟨rfl, rfl⟩
    · simp at h

theorem C01_shape_row_fields (env : Env) (hdr row : List Str) (id : Str) (seq : Int) (p : ShapePoint)
    (h : shapeRowOf env hdr row = some (id, seq, p)) :
    id = optRead hdr row c_shape_id ∧ parseInt32 (optRead hdr row c_shape_pt_sequence) = some seq ∧
    env.floatOf (optRead hdr row c_shape_pt_lat) = some p.latitude ∧ env.floatOf (optRead hdr row c_shape_pt_lon) = some p.longitude ∧
    p.distance = env.floatOf (optRead hdr row c_shape_dist_traveled) := by
  unfold shapeRowOf at h
  split at h
  · simp at h
  · split at h
    · next lat lon sq h1 h2 h3 =>
      simp only [Option.some.injEq, Prod.mk.injEq] at h
      obtain ⟨rfl, rfl, rfl⟩ := h
      exact ⟨rfl, h3, h1, h2, rfl⟩
    · simp at h

theorem C01_frequency_fields (hdr row : List Str) (trips : List Trip) (ti : Nat) (f : Frequency) (h : freqOfRow hdr row trips = some (ti, f)) :
    parseGtfsTime (optRead hdr row c_start_time) = some f.startTime ∧ parseGtfsTime (optRead hdr row c_end_time) = some f.endTime ∧
    parseInt32 (optRead hdr row c_headway_secs) = some f.headway ∧
    f.exactTimes = Gen.Enums.parseExactTimes (optRead hdr row c_exact_times) := by
  unfold freqOfRow at h
  split at h
  · simp at h
  · split at h
    · next ti' hw st et h1 h2 h3 h4 =>
      simp only [Option.some.injEq, Prod.mk.injEq] at h
      obtain ⟨rfl, rfl⟩ := h
      exact ⟨h3, h4, h2, rfl⟩
    · simp at h

/-- a stop time carries the row's values; when both times are given neither is touched, when one is
    blank, absent or unreadable it takes the other's value -/
theorem C01_stop_time_fields (env : Env) (hdr row : List Str) (stops : List Stop) (trips : List Trip) (ti : Nat) (st : StopTime)
    (h : stopTimeOfRow env hdr row stops trips = some (ti, st)) :
    atoi64 (optRead hdr row c_stop_sequence) = some st.sequence ∧ st.headsign = optRead hdr row c_stop_headsign ∧
    st.pickupType = Gen.Enums.parsePickupDropOffPolicy (readOr hdr row c_pickup_type [48]) ∧
    st.dropOffType = Gen.Enums.parsePickupDropOffPolicy (readOr hdr row c_drop_off_type [48]) ∧
    st.continuousPickup = Gen.Enums.parsePickupDropOffPolicy (readOr hdr row c_continuous_pickup []) ∧
    st.continuousDropOff = Gen.Enums.parsePickupDropOffPolicy (readOr hdr row c_continuous_drop_off []) ∧
    st.shapeDist = env.floatOf (optRead hdr row c_shape_dist_traveled) ∧
    (∀ a d, parseGtfsTime (optRead hdr row c_arrival_time) = some a → parseGtfsTime (optRead hdr row c_departure_time) = some d →
      st.arrival = a ∧ st.departure = d) ∧
    (∀ a, parseGtfsTime (optRead hdr row c_arrival_time) = some a → parseGtfsTime (optRead hdr row c_departure_time) = none →
      st.arrival = a ∧ st.departure = a) ∧
    (∀ d, parseGtfsTime (optRead hdr row c_arrival_time) = none → parseGtfsTime (optRead hdr row c_departure_time) = some d →
      st.arrival = d ∧ st.departure = d) := by
  unfold stopTimeOfRow at h
  simp only at h
  split at h
  · simp at h
  · next a d hm =>
    split at h
    · simp at h
    · next seq hseq =>
      split at h
      · simp at h
      · split at h
        · simp only [Option.some.injEq, Prod.mk.injEq] at h
          obtain ⟨rfl, rfl⟩ := h
          refine ⟨hseq, rfl, rfl, rfl, rfl, rfl, rfl, ?_, ?_, ?_⟩
          · intro a' d' ha hd; rw [ha, hd] at hm; simp at hm; exact ⟨hm.1.symm, hm.2.symm⟩
          · intro a' ha hd; rw [ha, hd] at hm; simp at hm; exact ⟨hm.1.symm, hm.2.symm⟩
          · intro d' ha hd; rw [ha, hd] at hm; simp at hm; exact ⟨hm.1.symm, hm.2.symm⟩
        · simp at h


/-- an accepted calendar.txt row makes its service's entry carry the row's weekdays ("1" = runs) and
    the two civil days of its range; other services' entries are untouched -/
theorem C01_calendar_row (hdr row : List Str) (m : List (Str × Service)) (sd ed : Int)
    (hs : Civil.parseDate8 (optRead hdr row c_start_date) = some sd) (he : Civil.parseDate8 (optRead hdr row c_end_date) = some ed)
    (hk : missingKeys hdr row calendarRequired = []) :
    alookup (optRead hdr row c_service_id) (calendarStep hdr m row) =
      some { id := optRead hdr row c_service_id,
             monday := optRead hdr row c_monday == [49], tuesday := optRead hdr row c_tuesday == [49],
             wednesday := optRead hdr row c_wednesday == [49], thursday := optRead hdr row c_thursday == [49],
             friday := optRead hdr row c_friday == [49], saturday := optRead hdr row c_saturday == [49],
             sunday := optRead hdr row c_sunday == [49], startDate := sd, endDate := ed } ∧
    ∀ k, k ≠ optRead hdr row c_service_id → alookup k (calendarStep hdr m row) = alookup k m := by
  unfold calendarStep
  simp only [hs, he, hk, ne_eq, not_true_eq_false, if_false]
  constructor
  · rw [alookup_aset_same]; rfl
  · intro k hne
    exact alookup_aset_other _ _ _ _ (fun e => hne e.symm)

/-- a calendar.txt row with an unreadable date or a blank required cell changes nothing -/
theorem C01_calendar_row_rejected (hdr row : List Str) (m : List (Str × Service))
    (h : Civil.parseDate8 (optRead hdr row c_start_date) = none ∨ Civil.parseDate8 (optRead hdr row c_end_date) = none ∨
         missingKeys hdr row calendarRequired ≠ []) : calendarStep hdr m row = m := by
  unfold calendarStep
  rcases h with h | h | h
  · simp [h]
  · cases Civil.parseDate8 (optRead hdr row c_start_date) <;> simp [h]
  · cases Civil.parseDate8 (optRead hdr row c_start_date) <;> cases Civil.parseDate8 (optRead hdr row c_end_date) <;> simp [h]

/-! ## end to end: presented bytes in, entities out -/

/-- `bytes` **present** the table `hdr :: rows`: they are what a CSV writer produces for it under *some* choice of
    quoting per field, line ending per record, final newline and byte-order mark (fields free of CR, unquoted
    fields free of comma / quote / LF, every row as wide as the header; without a byte-order mark the text must
    not itself begin with the three bytes of one) -/
def Presents (bytes : List UInt8) (hdr : List Str) (rows : List (List Str)) : Prop :=
  ∃ (file : List (List (Bool × Csv.Field) × Bool)) (trailing bom : Bool),
    (∀ p ∈ file, Csv.ValidRecord p.1) ∧ file.map (fun p => p.1.map Prod.snd) = hdr :: rows ∧
    (∀ r ∈ rows, r.length = hdr.length) ∧
    (bom = true → bytes = 0xEF :: 0xBB :: 0xBF :: Csv.writeFile file trailing) ∧
    (bom = false → bytes = Csv.writeFile file trailing ∧ Csv.stripBom bytes = bytes)

theorem presents_reads {bytes : List UInt8} {hdr : List Str} {rows : List (List Str)} (h : Presents bytes hdr rows) :
    Csv.readFile bytes = some ⟨hdr, rows, false⟩ := by
  obtain ⟨file, trailing, bom, hv, hfile, hw, hb1, hb0⟩ := h
  cases bom with
  | true =>
    rw [hb1 rfl]
    exact C01_readFile_presented file trailing hv hdr rows hfile hw
  | false =>
    obtain ⟨hb, hs⟩ := hb0 rfl
    unfold Csv.readFile
    rw [hs, hb]
    have h := Csv.run_file [] file trailing hv
    simp only [List.nil_append, hfile] at h
    simp only [Csv.readAll, h]
    have ht : rows.takeWhile (fun r => r.length == hdr.length) = rows :=
      takeWhile_all _ _ (fun r hr => by simp [hw r hr])
    simp [ht]

/-- **C01 end to end, for all ten files at once**: whatever archive holds, under the ten file names, *any*
    presentation of ten tables (any member order, any extra members – lookup is by name), `ParseStatic` succeeds
    and every collection of the result is the row function of its table applied to the collections it refers
    to – the very functions whose per-row behaviour is `C01_route_fields`, `C01_stop_fields`, `C01_trip_fields`,
    `C01_transfer_fields`, `C01_shape_row_fields`, `C01_frequency_fields`, `C01_stop_time_fields`,
    `C01_calendar_row`, `C01_one_entity_per_row`. The presentation occurs in the hypotheses only: the right-hand
    side mentions headers and rows, not bytes – that is "the result does not depend on presentation". -/
theorem C01_end_to_end (env : Env) (members : List (Str × Str))
    (ba br bs bt bc bcd bsh btr bf bst : Str)
    (ha hr hs ht hc hcd hsh htr hf hst : List Str) (ra rr rs rt rc rcd rsh rtr rf rst : List (List Str))
    (m1 : member members f_agency = some ba) (m2 : member members f_routes = some br)
    (m3 : member members f_stops = some bs) (m4 : member members f_transfers = some bt)
    (m5 : member members f_calendar = some bc) (m6 : member members f_calendar_dates = some bcd)
    (m7 : member members f_shapes = some bsh) (m8 : member members f_trips = some btr)
    (m9 : member members f_frequencies = some bf) (m10 : member members f_stop_times = some bst)
    (p1 : Presents ba ha ra) (p2 : Presents br hr rr) (p3 : Presents bs hs rs) (p4 : Presents bt ht rt)
    (p5 : Presents bc hc rc) (p6 : Presents bcd hcd rcd) (p7 : Presents bsh hsh rsh) (p8 : Presents btr htr rtr)
    (p9 : Presents bf hf rf) (p10 : Presents bst hst rst)
    (hx : ∀ p ∈ Gen.FileTable.files, tenFiles.contains p.1 = false → member members p.1 = none) :
    parse env members = .ok (
      let ag := parseAgencies ⟨ha, ra, false⟩
      let routes := parseRoutes ⟨hr, rr, false⟩ ag.1
      let stops := parseStops env ⟨hs, rs, false⟩
      let services := servicesOf (parseCalendarDates ⟨hcd, rcd, false⟩ (parseCalendar ⟨hc, rc, false⟩ []))
      let shapes := parseShapes env ⟨hsh, rsh, false⟩
      { agencies := ag.1, warnings := ag.2,
        zone := (match ag.1 with | a :: _ => (env.zoneOf a.timezone).getD [85, 84, 67] | [] => [85, 84, 67]),
        routes := routes, stops := stops, transfers := parseTransfers ⟨ht, rt, false⟩ stops, services := services, shapes := shapes,
        trips := addStopTimes env ⟨hst, rst, false⟩ stops (addFrequencies ⟨hf, rf, false⟩ (parseTrips ⟨htr, rtr, false⟩ routes services shapes)) }) := by
  have e1 := presents_reads p1; have e2 := presents_reads p2; have e3 := presents_reads p3
  have e4 := presents_reads p4; have e5 := presents_reads p5; have e6 := presents_reads p6
  have e7 := presents_reads p7; have e8 := presents_reads p8; have e9 := presents_reads p9
  have e10 := presents_reads p10
  have hread : Readable members Gen.FileTable.files := by
    intro p hp
    -- a further entry of the table: optional, and the archive holds no member of that name
    have hunk : tenFiles.contains p.1 = false →
        (match member members p.1 with
         | none => p.2 = true
         | some bytes => ∃ f, Csv.readFile bytes = some f ∧ f.bodyError = false) := by
      intro hk'
      rw [hx p hp hk']
      have hopt := C01_file_table.2
      rw [List.all_eq_true] at hopt
      exact hopt p (List.mem_filter.mpr ⟨hp, by rw [hk']; rfl⟩)
    cases hk : tenFiles.contains p.1
    · exact hunk hk
    have hp' : p ∈ Gen.FileTable.files.filter (fun q => tenFiles.contains q.1) := List.mem_filter.mpr ⟨hp, hk⟩
    rw [table_eq] at hp'
    simp only [List.mem_cons, List.mem_nil_iff, or_false] at hp'
    rcases hp' with rfl | rfl | rfl | rfl | rfl | rfl | rfl | rfl | rfl | rfl
    · simp only [m1]; exact ⟨_, e1, rfl⟩
    · simp only [m2]; exact ⟨_, e2, rfl⟩
    · simp only [m3]; exact ⟨_, e3, rfl⟩
    · simp only [m4]; exact ⟨_, e4, rfl⟩
    · simp only [m5]; exact ⟨_, e5, rfl⟩
    · simp only [m6]; exact ⟨_, e6, rfl⟩
    · simp only [m7]; exact ⟨_, e7, rfl⟩
    · simp only [m8]; exact ⟨_, e8, rfl⟩
    · simp only [m9]; exact ⟨_, e9, rfl⟩
    · simp only [m10]; exact ⟨_, e10, rfl⟩
  rw [C01_composition env members hread]
  congr 1
  exact C01_composition_explicit env (fileOf members) _ _ _ _ _ _ _ _ _ _
    (by simp [fileOf, m1, e1]) (by simp [fileOf, m2, e2]) (by simp [fileOf, m3, e3]) (by simp [fileOf, m4, e4])
    (by simp [fileOf, m5, e5]) (by simp [fileOf, m6, e6]) (by simp [fileOf, m7, e7]) (by simp [fileOf, m8, e8])
    (by simp [fileOf, m9, e9]) (by simp [fileOf, m10, e10])

/-- **presentation independence** as a corollary: two archives presenting the same ten tables parse equal -/
theorem C01_presentation_independent (env : Env) (members members' : List (Str × Str))
    (ba br bs bt bc bcd bsh btr bf bst ba' br' bs' bt' bc' bcd' bsh' btr' bf' bst' : Str)
    (ha hr hs ht hc hcd hsh htr hf hst : List Str) (ra rr rs rt rc rcd rsh rtr rf rst : List (List Str))
    (m1 : member members f_agency = some ba) (m2 : member members f_routes = some br)
    (m3 : member members f_stops = some bs) (m4 : member members f_transfers = some bt)
    (m5 : member members f_calendar = some bc) (m6 : member members f_calendar_dates = some bcd)
    (m7 : member members f_shapes = some bsh) (m8 : member members f_trips = some btr)
    (m9 : member members f_frequencies = some bf) (m10 : member members f_stop_times = some bst)
    (n1 : member members' f_agency = some ba') (n2 : member members' f_routes = some br')
    (n3 : member members' f_stops = some bs') (n4 : member members' f_transfers = some bt')
    (n5 : member members' f_calendar = some bc') (n6 : member members' f_calendar_dates = some bcd')
    (n7 : member members' f_shapes = some bsh') (n8 : member members' f_trips = some btr')
    (n9 : member members' f_frequencies = some bf') (n10 : member members' f_stop_times = some bst')
    (p1 : Presents ba ha ra) (p2 : Presents br hr rr) (p3 : Presents bs hs rs) (p4 : Presents bt ht rt)
    (p5 : Presents bc hc rc) (p6 : Presents bcd hcd rcd) (p7 : Presents bsh hsh rsh) (p8 : Presents btr htr rtr)
    (p9 : Presents bf hf rf) (p10 : Presents bst hst rst)
    (q1 : Presents ba' ha ra) (q2 : Presents br' hr rr) (q3 : Presents bs' hs rs) (q4 : Presents bt' ht rt)
    (q5 : Presents bc' hc rc) (q6 : Presents bcd' hcd rcd) (q7 : Presents bsh' hsh rsh) (q8 : Presents btr' htr rtr)
    (q9 : Presents bf' hf rf) (q10 : Presents bst' hst rst)
    (hx : ∀ p ∈ Gen.FileTable.files, tenFiles.contains p.1 = false → member members p.1 = none)
    (hx' : ∀ p ∈ Gen.FileTable.files, tenFiles.contains p.1 = false → member members' p.1 = none) :
    parse env members = parse env members' := by
  rw [C01_end_to_end env members ba br bs bt bc bcd bsh btr bf bst ha hr hs ht hc hcd hsh htr hf hst ra rr rs rt rc rcd rsh rtr rf rst
        m1 m2 m3 m4 m5 m6 m7 m8 m9 m10 p1 p2 p3 p4 p5 p6 p7 p8 p9 p10 hx,
      C01_end_to_end env members' ba' br' bs' bt' bc' bcd' bsh' btr' bf' bst' ha hr hs ht hc hcd hsh htr hf hst ra rr rs rt rc rcd rsh rtr rf rst
        n1 n2 n3 n4 n5 n6 n7 n8 n9 n10 q1 q2 q3 q4 q5 q6 q7 q8 q9 q10 hx']

/-! ## decimal numbers exactly

The model takes the float of a cell from the harness (`Env.floatOf`, computed with the same library call
the parser makes); `Float.certify` is run on every such answer, so what the correspondence compares the
implementation with is a *certified* correctly rounded value, not strconv's word. -/

/-- a decimal whose digits are all zero is exactly `+0` or `-0`, by its sign -/
theorem C01_float_zero (neg : Bool) (e : Int) (bits : Option Nat) :
    Float.nearest { neg := neg, mant := 0, exp10 := e } bits = (bits == some (if neg then 2 ^ 63 else 0)) :=
  Float.nearest_zero neg e bits

/-- **correct rounding**: bits accepted for a non-zero decimal `±N·10^e` in the computed range decode to
    `±M·2^E` with the same sign and `(2M−1)·2^(E−1) ≤ N·10^e ≤ (2M+1)·2^(E−1)` – at most half a unit in the last
    place away – with equality only for even `M` (ties to even); comparisons are exact (`cmpDecBin_lt/eq/gt`) -/
theorem C01_float_within_half_ulp (d : Float.Dec) (b : Nat) (v : Float.Bin) (hm : d.mant ≠ 0)
    (hr1 : ¬ ((Float.decLen d.mant : Int) + d.exp10 > 311)) (hr2 : ¬ ((Float.decLen d.mant : Int) + d.exp10 < -330))
    (hd : Float.decode b = some v) (h : Float.nearest d (some b) = true) :
    v.neg = d.neg ∧
    (Float.cmpDecBin d.mant d.exp10 (2 * v.mant + 1) (v.exp2 - 1) = .lt ∨
      (Float.cmpDecBin d.mant d.exp10 (2 * v.mant + 1) (v.exp2 - 1) = .eq ∧ v.mant % 2 = 0)) ∧
    (v.mant ≠ 0 → ¬ (v.mant = 2 ^ 52 ∧ v.biased > 1) →
      (Float.cmpDecBin d.mant d.exp10 (2 * v.mant - 1) (v.exp2 - 1) = .gt ∨
        (Float.cmpDecBin d.mant d.exp10 (2 * v.mant - 1) (v.exp2 - 1) = .eq ∧ v.mant % 2 = 0))) :=
  Float.nearest_window d b v hm hr1 hr2 hd h

/-- **the certificate determines the answer**: for a decimal cell at most one answer – one 64-bit pattern, or
    "out of range" – is certified. (The acceptance windows of neighbouring doubles meet only in their common
    midpoint, where only the even one accepts; the midpoints increase strictly along the bit patterns, across
    subnormals and binade edges: `Float.H_strictMono`, `Float.lo_identity`, `Float.window_unique`.) So "the
    correctly rounded binary64 value of the cell" is a function of the cell, and what the implementation
    returns is compared with *it*. -/
theorem C01_float_unique (cell : Str) (o1 o2 : Option Nat)
    (h1 : ∀ b, o1 = some b → b < 2 ^ 64) (h2 : ∀ b, o2 = some b → b < 2 ^ 64)
    (c1 : Float.certify cell o1 = some true) (c2 : Float.certify cell o2 = some true) : o1 = o2 :=
  Float.certify_unique cell o1 o2 h1 h2 c1 c2

/-- sign, biased exponent and significand – what the certificate looks at – determine all 64 bits -/
theorem C01_float_bits_determined (b1 b2 : Nat) (h1 : b1 < 2 ^ 64) (h2 : b2 < 2 ^ 64) (v : Float.Bin)
    (e1 : Float.decode b1 = some v) (e2 : Float.decode b2 = some v) : b1 = b2 :=
  Float.decode_injective b1 b2 h1 h2 v e1 e2

set_option maxRecDepth 4000 in
/-- non-vacuity: `40.7128` and `-74.0060` with their binary64 bits are accepted, the neighbouring patterns are
    not; `9007199254740993` (= 2^53 + 1, a tie) goes to the even neighbour 2^53; the largest finite value is
    accepted just below the overflow threshold and a range error is demanded at it -/
example :
    Float.certify [52, 48, 46, 55, 49, 50, 56] (some 0x40445B3D07C84B5E) = some true ∧
    Float.certify [52, 48, 46, 55, 49, 50, 56] (some 0x40445B3D07C84B5F) = some false ∧
    Float.certify [52, 48, 46, 55, 49, 50, 56] (some 0x40445B3D07C84B5D) = some false ∧
    Float.certify [45, 55, 52, 46, 48, 48, 54, 48] (some 0xC05280624DD2F1AA) = some true ∧
    Float.certify [57, 48, 48, 55, 49, 57, 57, 50, 53, 52, 55, 52, 48, 57, 57, 51] (some 0x4340000000000000) = some true ∧
    Float.certify [57, 48, 48, 55, 49, 57, 57, 50, 53, 52, 55, 52, 48, 57, 57, 51] (some 0x4340000000000001) = some false ∧
    Float.certify [49, 101, 51, 48, 57] none = some true ∧
    Float.certify [49, 101, 51, 48, 56] none = some false ∧
    Float.certify [105, 110, 102] (some 0x7FF0000000000000) = none := by
  refine ⟨?_, ?_, ?_, ?_, ?_, ?_, ?_, ?_, ?_⟩ <;> decide

end Gtfs.Static
