import GtfsVerif.Lemmas.RealtimeVeh
import GtfsVerif.Lemmas.RealtimeAlerts
import GtfsVerif.Lemmas.Decimal
import GtfsVerif.Gen.Regex
import GtfsVerif.Lemmas.Zone
/-! # C02 — realtime parse transcribes every wire field faithfully, in the configured zone

Model: `Gtfs.Rt.parse` on the decoded message (protobuf decoding is the model boundary; the
harness asserts on every sample that `proto.Unmarshal` delivered the header and entity ids).
A timestamp is modelled by its Unix seconds – "the same instant" – and the zone a result is
*expressed in* is observed on the implementation by the canonicaliser (every `time.Time` of a
result must carry the configured location; a date must read local midnight). A date is its civil
day number. -/
namespace Gtfs.Rt

/-! ## instants, delays, direction -/

/-- Unix timestamps (uint64 on the wire) become the same instant: the identity below 2^63 -/
theorem C02_timestamp_same_instant (n : Nat) (h : n < 2 ^ 63) : wrap64 n = n := by
  simp [wrap64, h]

/-- the header timestamp is the creation time; absent ⇒ the zero time (nothing fabricated) -/
theorem C02_createdAt (ext : Ext) (m : Msg) :
    (parse ext m).createdAt = (m.timestamp.map wrap64).getD zeroTimeUnix := by
  simp [parse, finish]

/-- stop time events: delay, time and uncertainty are carried over unchanged (delay in whole
    seconds, time as the same instant), and an absent field stays absent -/
theorem C02_event_transcribed (e : Option StEvent) :
    convertEvent e = e.map (fun ev => { time := ev.time, delay := ev.delay, uncertainty := ev.uncertainty }) := rfl

theorem C02_event_absent : convertEvent none = none := rfl

/-- direction 0 ↦ False, any other ↦ True, absent ↦ unspecified (over the regenerated decoder) -/
theorem C02_direction :
    dirRT none = Gen.Enums.DirectionID_Unspecified ∧ dirRT (some 0) = Gen.Enums.DirectionID_False ∧
    dirRT (some 1) = Gen.Enums.DirectionID_True ∧ (∀ n, dirRT (some (n + 1)) = Gen.Enums.DirectionID_True) ∧
    Gen.Enums.DirectionID_Unspecified = 0 ∧ Gen.Enums.DirectionID_True = 1 ∧ Gen.Enums.DirectionID_False = 2 := by
  refine ⟨rfl, rfl, rfl, fun _ => rfl, rfl, rfl, rfl⟩

/-! ## start time and start date -/

theorem C02_startTimeRegex_pinned : Gen.Regex.startTimeRegex =
    [94, 40, 91, 48, 45, 57, 93, 123, 50, 125, 41, 58, 40, 91, 48, 45, 57, 93, 123, 50, 125, 41, 58, 40, 91, 48, 45, 57, 93, 123, 50, 125, 41, 36] := by decide

theorem C02_startDateRegex_pinned : Gen.Regex.startDateRegex =
    [94, 40, 91, 48, 45, 57, 93, 123, 52, 125, 41, 40, 91, 48, 45, 57, 93, 123, 50, 125, 41, 40, 91, 48, 45, 57, 93, 123, 50, 125, 41, 36] := by decide

/-- **HH:MM:SS start times become durations**: for all two-digit triples (hours up to 99, so
    times past 24:00:00 included) the start time is `(HH·60+MM)·60+SS` seconds -/
theorem C02_start_time (h1 h2 m1 m2 s1 s2 : Nat) (hh1 : h1 < 10) (hh2 : h2 < 10) (hm1 : m1 < 10) (hm2 : m2 < 10)
    (hs1 : s1 < 10) (hs2 : s2 < 10) :
    parseStartTime (some [digitChar h1, digitChar h2, 58, digitChar m1, digitChar m2, 58, digitChar s1, digitChar s2])
      = (true, ((((10 * h1 + h2) * 60 + (10 * m1 + m2)) * 60 + (10 * s1 + s2) : Nat) : Int)) := by
  simp only [parseStartTime, digitChar_isDigit, colon, beq_self_eq_true, Bool.and_self, if_true]
  simp [digitsVal, digitVal_digitChar, Nat.mod_eq_of_lt, hh1, hh2, hm1, hm2, hs1, hs2]

theorem C02_start_time_absent : parseStartTime none = (false, 0) := rfl

/-- anything that is not exactly `dd:dd:dd` yields no start time (absent, never fabricated) -/
theorem C02_start_time_malformed (s : Str) (h : s.length ≠ 8) : parseStartTime (some s) = (false, 0) := by
  unfold parseStartTime
  split
  · rename_i heq; simp only [Option.some.injEq] at heq; subst heq; simp at h
  · rfl

/-- **YYYYMMDD start dates become the start of that civil date**: for a valid civil date the day
    number is that of the date itself (no normalisation takes place) -/
theorem C02_start_date_valid (y : Int) (m d : Nat) (hm1 : 1 ≤ m) (hm2 : m ≤ 12) :
    Civil.dateDays y m d = Civil.firstOfMonth y m + ((d : Int) - 1) := by
  unfold Civil.dateDays
  have h1 : ((m : Int) - 1).fdiv 12 = 0 := by
    have : (0 : Int) ≤ (m : Int) - 1 := by omega
    rw [Int.fdiv_eq_ediv_of_nonneg _ (by omega)]
    omega
  have h2 : (((m : Int) - 1).fmod 12).toNat + 1 = m := by
    rw [Int.fmod_eq_emod_of_nonneg _ (by omega)]
    omega
  simp only [h1, h2, Int.add_zero]

theorem C02_start_date_absent : parseStartDate none = (false, 0) := rfl

/-! ### the instant at which a start date is surfaced (`time.Date(y, m, d, 0,0,0,0, zone)`)

`Zone.dateUnix` follows `time.Date`'s code over the zone's transition table (the table is exported
from the implementation's own zone database; `Zone.Table.instant` is what the driver prints and the
correspondence compares with `StartDate.Unix()` of the real result, for every zone of the run). -/

/-- what the model surfaces for a start date inside the exported range is `time.Date`'s instant -/
theorem C02_start_date_instant (zt : Zone.Table) (d : Int) (hc : zt.covers d = true) :
    zt.instant d = some (Zone.dateUnix zt.zone d) := by
  simp [Zone.Table.instant, hc]

/-- **closed form of `time.Date`'s two look-ups** -/
theorem C02_start_date_closed_form {z : Zone.Zone} (h : Zone.WF z) (d : Int) :
    Zone.dateUnix z d = d * 86400 - Zone.offsetAt z (d * 86400 - Zone.offsetAt z (d * 86400)) :=
  Zone.dateUnix_eq h d

/-- **local midnight, fixed offsets (UTC included, the default when no zone is configured)**: a clock
    in the zone reads 00:00:00 of the civil day at the surfaced instant – unconditionally -/
theorem C02_start_date_midnight_fixed (o d : Int) :
    Zone.wall (Zone.fixed o) (Zone.dateUnix (Zone.fixed o) d) = d * 86400 :=
  Zone.wall_dateUnix_fixed o d

theorem C02_start_date_midnight_utc (d : Int) : Zone.dateUnix Zone.utc d = d * 86400 := Zone.dateUnix_utc d

/-- **local midnight, zones with transitions**: whenever `time.Date`'s second guess is consistent
    (decidable; it fails only where the wall clock skips or straddles that midnight) -/
theorem C02_start_date_midnight {z : Zone.Zone} (h : Zone.WF z) {d : Int} (hs : Zone.Settled z d) :
    Zone.wall z (Zone.dateUnix z d) = d * 86400 :=
  Zone.wall_dateUnix h hs

/-- the condition is exact: the surfaced instant reads midnight of that day **iff** `Settled` (so the days on
    which a zone has no local midnight are precisely the unsettled ones; validated against the time package on
    every day of 1985–2040 in twenty zones, stream `ZON`) -/
theorem C02_start_date_midnight_iff {z : Zone.Zone} (h : Zone.WF z) (d : Int) :
    Zone.wall z (Zone.dateUnix z d) = d * 86400 ↔ Zone.Settled z d :=
  Zone.wall_dateUnix_iff h d

/-- … which is guaranteed when no transition falls into the window the two look-ups can reach:
    with offsets in `[lo, hi]`, the instants `[midnight − hi, midnight − lo]` and the midnight reading itself -/
theorem C02_start_date_midnight_quiet {z : Zone.Zone} (h : Zone.WF z) {lo hi a b d : Int}
    (hw : Zone.Within z lo hi) (hq : Zone.NoTransition z a b) (h1 : a ≤ d * 86400) (h2 : d * 86400 ≤ b)
    (h3 : a ≤ d * 86400 - hi) (h4 : d * 86400 - lo ≤ b) :
    Zone.wall z (Zone.dateUnix z d) = d * 86400 :=
  Zone.wall_dateUnix h (Zone.settled_of_noTransition hw hq h1 h2 h3 h4)

/-- comparing start dates as instants (`TripID.Less`) is comparing civil days, for every zone whose
    offsets span less than a day -/
theorem C02_start_date_order {z : Zone.Zone} (h : Zone.WF z) {lo hi : Int} (hw : Zone.Within z lo hi)
    (hspan : hi - lo < 86400) {d d' : Int} :
    (Zone.dateUnix z d < Zone.dateUnix z d' ↔ d < d') ∧ (Zone.dateUnix z d = Zone.dateUnix z d' ↔ d = d') := by
  refine ⟨⟨fun hlt => ?_, Zone.dateUnix_strictMono h hw hspan⟩, ⟨Zone.dateUnix_inj h hw hspan, fun e => by rw [e]⟩⟩
  rcases Int.lt_trichotomy d d' with h1 | h1 | h1
  · exact h1
  · rw [h1] at hlt; omega
  · have := Zone.dateUnix_strictMono h hw hspan h1; omega

/-- America/New_York around 2021 (from the tz database): EST until 2021-03-14 07:00 UTC, EDT until
    2021-11-07 06:00 UTC -/
def nyc2021 : Zone.Zone := { first := -18000, trans := [(1615705200, -14400), (1636264800, -18000)] }

/-- non-vacuity: the table is well-formed, both offset-change days (18700 = 2021-03-14, 18938 = 2021-11-07)
    are settled, and the surfaced instants are 05:00 UTC and 04:00 UTC -/
example : Zone.WF nyc2021 ∧ Zone.Settled nyc2021 18700 ∧ Zone.Settled nyc2021 18938 ∧
    Zone.dateUnix nyc2021 18700 = 1615698000 ∧ Zone.dateUnix nyc2021 18938 = 1636257600 ∧
    Zone.Within nyc2021 (-18000) (-14400) := by decide

/-- America/Havana 2021: clocks go from 00:00 to 01:00 on 2021-03-14 (05:00 UTC) -/
def havana2021 : Zone.Zone := { first := -18000, trans := [(1615698000, -14400), (1636261200, -18000)] }

/-- the hypothesis is not idle: where the wall clock skips midnight, `time.Date` (and the model with it)
    returns an instant that does not read 00:00:00 – here 2021-03-13 23:00 local time -/
example : ¬ Zone.Settled havana2021 18700 ∧
    Zone.wall havana2021 (Zone.dateUnix havana2021 18700) = 18700 * 86400 - 3600 := by decide

theorem C02_start_date_malformed (s : Str) (h : s.length ≠ 8) : parseStartDate (some s) = (false, 0) := by
  unfold parseStartDate
  simp [h]

/-! ## trip descriptors, stop time updates, vehicles -/

/-- every surfaced identifier field is the wire value (absent strings are the empty string, the
    has-flags are false and the values zero when the field is absent or malformed) -/
theorem C02_trip_descriptor (t : TripDesc) :
    let id := parseTripDescriptor t
    id.id = t.tripId.getD [] ∧ id.route = t.routeId.getD [] ∧ id.dir = dirRT t.directionId ∧ id.sr = t.sr.getD 0 ∧
    (id.hasStartTime, id.startTime) = parseStartTime t.startTime ∧ (id.hasStartDate, id.startDate) = parseStartDate t.startDate := by
  simp [parseTripDescriptor]

/-- a trip update yields one stop time update per wire update, in order, each field carried over
    (and the trip flagged as having an entity of its own) -/
theorem C02_stop_time_updates (ext : Ext) (tu : TripUpdateMsg) (t : TripDesc) (h : tu.trip = some t) :
    ∃ v, parseTripUpdate ext tu = some (
      { id := parseTripDescriptor t, inMessage := true,
        stus := tu.stus.map fun s => { stopSequence := s.stopSequence, stopId := s.stopId, arrival := convertEvent s.arrival,
                                       departure := convertEvent s.departure, track := getTrack ext s, sr := s.sr.getD 0 } }, v) := by
  unfold parseTripUpdate
  simp only [h]
  cases tu.vehicle <;> exact ⟨_, rfl⟩

/-- a vehicle position yields the vehicle flagged as in-message with every optional field carried
    over as is (absent ⇒ absent), the timestamp as the same instant -/
theorem C02_vehicle_position (vp : VehiclePosMsg) :
    let v := (parseVehicle vp).2
    v.inMessage = true ∧ v.id = parseVehicleDescriptor vp.vehicle ∧ v.position = vp.position ∧
    v.currentStopSequence = vp.currentStopSequence ∧ v.stopId = vp.stopId ∧ v.currentStatus = vp.currentStatus ∧
    v.timestamp = vp.timestamp.map wrap64 ∧ v.occupancyStatus = vp.occupancyStatus ∧
    v.occupancyPercentage = vp.occupancyPercentage ∧ v.congestionLevel = vp.congestionLevel.getD 0 := by
  simp [parseVehicle]

/-- an all-empty vehicle descriptor is no identifier at all; otherwise the three strings are kept -/
theorem C02_vehicle_descriptor (d : VehDesc) :
    parseVehicleDescriptor (some d) =
      (if (⟨d.id.getD [], d.label.getD [], d.licensePlate.getD []⟩ : VehicleID) = ⟨[], [], []⟩ then none
       else some ⟨d.id.getD [], d.label.getD [], d.licensePlate.getD []⟩) ∧ parseVehicleDescriptor none = none := by
  simp [parseVehicleDescriptor]

/-! ## one Alert per alert entity, in feed order -/

/-- **exactly one Alert per (not skipped) alert entity, in feed order** (proof: `Lemmas/RealtimeAlerts.lean`) -/
theorem C02_alerts_exact (ext : Ext) (es : List (Entity × Bool)) :
    (runEntities ext es).alerts = (es.filter (fun p => !p.2)).filterMap (fun p => alertOf p.1) := alerts_exact ext es

/-- with no extension nothing is skipped: the alerts are exactly the alert entities, in order -/
theorem C02_alerts_exact_noext (m : Msg) :
    (parse .noExt m).alerts = m.entities.filterMap alertOf := by
  simp only [parse, finish, C02_alerts_exact, prepass]
  rw [List.filter_map, List.filterMap_map]
  have : ∀ l : List Entity, l.filter (fun _ => true) = l := by
    intro l; induction l with
    | nil => rfl
    | cons a r ih => simp [List.filter_cons, ih]
  simp [Function.comp_def, this]

/-- an alert's active periods, cause, effect and texts are the wire values (defaults when absent) -/
theorem C02_alert_fields (id : Str) (a : AlertMsg) :
    let r := (parseAlert id a).1
    r.id = id ∧ r.cause = a.cause.getD Gen.NyctTables.Alert_UNKNOWN_CAUSE ∧ r.effect = a.effect.getD Gen.NyctTables.Alert_UNKNOWN_EFFECT ∧
    r.activePeriods = a.activePeriods.map (fun p => (p.start.map wrap64, p.stop.map wrap64)) ∧
    r.header = texts a.header ∧ r.description = texts a.description ∧ r.url = texts a.url := by
  simp [parseAlert]

/-! The statements "exactly one Trip per distinct trip descriptor and one Vehicle per distinct
    vehicle" for conflict-free messages are, in this round, covered as follows: uniqueness and
    order for every message are C07's theorems (`C07_trips_sorted_unique`,
    `C07_vehicles_unique_ids`); that every mentioned descriptor is present with its own entity's
    data is `C07_own_entity_wins` plus the correspondence, in which the oracle compares the result
    with the wire values of the generated message (not with the model). -/

/-! ## non-vacuity -/
example : parseStartTime (some [50, 53, 58, 49, 48, 58, 48, 48]) = (true, 90600) := by decide
example : (parseStartDate (some [50, 48, 50, 52, 48, 50, 50, 57])).1 = true := by decide

end Gtfs.Rt

namespace Gtfs.Rt

/-! ## exactly one Trip per distinct trip descriptor, one Vehicle per distinct vehicle -/

/-- **C02 (one Trip per distinct trip descriptor).** For a message without conflicting duplicates:
    a trip identifier is in `Trips` exactly when some entity of the message mentions it (a trip
    update, a vehicle position, an alert's informed entity); it is there once
    (`C07_trips_sorted_unique`); and the entry carries the data of the trip's own entity when it has
    one (flagged `inMessage`), otherwise only the identifier (flag false, no stop time updates) -/
theorem C02_trips_exact (ext : Ext) (m : Msg) (hcf : ConflictFreeTrips ext (prepass ext m)) :
    (∀ k, k ∈ (parse ext m).trips.map (·.data.id) ↔ ∃ x ∈ allMentions ext (prepass ext m), x.id = k) ∧
    (∀ t ∈ (parse ext m).trips,
      t.data = match ((allMentions ext (prepass ext m)).filter fun x => x.id == t.data.id).find? (·.inMessage) with
               | some own => own
               | none => { id := t.data.id, inMessage := false }) := by
  unfold parse finish
  simp only
  generalize hes : prepass ext m = es at hcf
  have inv := (runEntities_inv ext es).1
  let le := fun (a b : TripID × TripData) => !tripLess b.1 a.1
  have hperm := List.mergeSort_perm (runEntities ext es).trips le
  have hlk := trips_lookup_cf ext es hcf
  constructor
  · intro k
    simp only [List.map_map, List.mem_map, Function.comp]
    constructor
    · rintro ⟨p, hp, rfl⟩
      have hp' : p ∈ (runEntities ext es).trips := hperm.subset hp
      have hid := (inv.2 p hp').1
      have hl := (mem_iff_alookup' _ inv.1 p.1 p.2).mp hp'
      rw [hlk p.1] at hl
      split at hl
      · exact absurd hl (by simp)
      · next hne =>
        obtain ⟨x, hx⟩ := List.exists_mem_of_ne_nil _ hne
        have := List.mem_filter.mp hx
        exact ⟨x, this.1, by rw [hid]; simpa using this.2⟩
    · rintro ⟨x, hx, rfl⟩
      have hne : ((allMentions ext es).filter fun m => m.id == x.id) ≠ [] := by
        intro h
        have : x ∈ (allMentions ext es).filter fun m => m.id == x.id := List.mem_filter.mpr ⟨hx, by simp⟩
        rw [h] at this; simp at this
      have hl := hlk x.id
      rw [if_neg hne] at hl
      have hmem := (mem_iff_alookup' _ inv.1 x.id _).mpr hl
      refine ⟨_, hperm.symm.subset hmem, ?_⟩
      exact (inv.2 _ hmem).1
  · intro t ht
    simp only [List.mem_map] at ht
    obtain ⟨p, hp, rfl⟩ := ht
    have hp' : p ∈ (runEntities ext es).trips := hperm.subset hp
    have hid := (inv.2 p hp').1
    have hl := (mem_iff_alookup' _ inv.1 p.1 p.2).mp hp'
    rw [hlk p.1] at hl
    split at hl
    · exact absurd hl (by simp)
    · simp only [Option.some.injEq] at hl
      simp only [hid]
      exact hl.symm

/-- **C02 (one Vehicle per distinct vehicle).** `Vehicles` is the identified vehicles followed by the
    id-less ones. For a message without conflicting duplicates: a vehicle identifier is among the
    identified ones exactly when some entity mentions it (a vehicle position, or the vehicle
    descriptor of a trip update), once, carrying the data of its own vehicle position when it has one
    (flagged `inMessage`) and otherwise only the identifier; the id-less vehicles are exactly the
    id-less mentions, one each, in feed order. -/
theorem C02_vehicles_exact (ext : Ext) (m : Msg) (hcf : ConflictFreeVehicles ext (prepass ext m)) :
    ∃ withId : List VehData,
      (parse ext m).vehicles.map (·.data)
        = withId ++ (allVehMentions ext (prepass ext m)).filter (fun v => v.id.isNone) ∧
      (withId.map (·.id)).Nodup ∧
      (∀ k, some k ∈ withId.map (·.id) ↔ ∃ x ∈ allVehMentions ext (prepass ext m), x.id = some k) ∧
      (∀ v ∈ withId, ∃ k, v.id = some k ∧
        v = match ((allVehMentions ext (prepass ext m)).filter fun x => x.id == some k).find? (·.inMessage) with
            | some own => own
            | none => { id := some k, inMessage := false }) := by
  unfold parse finish
  simp only
  generalize hes : prepass ext m = es at hcf
  obtain ⟨_, hnd, hid, _⟩ := runEntities_inv ext es
  let le := fun (a b : VehicleID × VehData) => !vehLess b.1 a.1
  have hperm := List.mergeSort_perm (runEntities ext es).vehicles le
  have hlk := vehicles_lookup_cf ext es hcf
  refine ⟨((runEntities ext es).vehicles.mergeSort le).map (·.2), ?_, ?_, ?_, ?_⟩
  · rw [List.map_append, List.map_map, ← noId_eq]
    congr 1
    apply List.ext_getElem?
    intro i
    simp only [List.getElem?_map, List.getElem?_mapIdx, Option.map_map]
    cases (runEntities ext es).noId[i]? <;> rfl
  · have hkeys : (((runEntities ext es).vehicles.mergeSort le).map (·.2)).map (·.id)
        = (akeys ((runEntities ext es).vehicles.mergeSort le)).map some := by
      simp only [List.map_map, akeys]
      apply List.map_congr_left
      intro p hp
      exact hid p (hperm.subset hp)
    rw [hkeys]
    have : (akeys ((runEntities ext es).vehicles.mergeSort le)).Nodup := (List.Perm.nodup_iff (hperm.map _)).mpr hnd
    exact List.Pairwise.map some (fun a b h e => h (Option.some.inj e)) this
  · intro k
    simp only [List.map_map, List.mem_map, Function.comp]
    constructor
    · rintro ⟨p, hp, hpk⟩
      have hp' : p ∈ (runEntities ext es).vehicles := hperm.subset hp
      have hidp := hid p hp'
      have hk : p.1 = k := by rw [hidp] at hpk; exact Option.some.inj hpk
      have hl := (mem_iff_alookup' _ hnd p.1 p.2).mp hp'
      rw [hlk p.1] at hl
      split at hl
      · exact absurd hl (by simp)
      · next hne =>
        obtain ⟨x, hx⟩ := List.exists_mem_of_ne_nil _ hne
        have := List.mem_filter.mp hx
        exact ⟨x, this.1, by rw [← hk]; simpa using this.2⟩
    · rintro ⟨x, hx, hxk⟩
      have hne : ((allVehMentions ext es).filter fun m => m.id == some k) ≠ [] := by
        intro h
        have : x ∈ (allVehMentions ext es).filter fun m => m.id == some k := List.mem_filter.mpr ⟨hx, by simp [hxk]⟩
        rw [h] at this; simp at this
      have hl := hlk k
      rw [if_neg hne] at hl
      have hmem := (mem_iff_alookup' _ hnd k _).mpr hl
      exact ⟨_, hperm.symm.subset hmem, hid _ hmem⟩
  · intro v hv
    simp only [List.mem_map] at hv
    obtain ⟨p, hp, rfl⟩ := hv
    have hp' : p ∈ (runEntities ext es).vehicles := hperm.subset hp
    refine ⟨p.1, hid p hp', ?_⟩
    have hl := (mem_iff_alookup' _ hnd p.1 p.2).mp hp'
    rw [hlk p.1] at hl
    split at hl
    · exact absurd hl (by simp)
    · simp only [Option.some.injEq] at hl
      exact hl.symm

end Gtfs.Rt

namespace Gtfs.Rt

/-! non-vacuity: a concrete message meets the hypotheses of the two theorems above -/

example : ConflictFreeTrips .noExt (prepass .noExt demoMsg) :=
  conflictFreeTrips_of_nodup _ _ (by decide)
example : ConflictFreeVehicles .noExt (prepass .noExt demoMsg) :=
  conflictFreeVehicles_of_nodup _ _ (by decide)
example : ((runEntities .noExt (prepass .noExt demoMsg)).trips.map (·.2.inMessage)) = [true, false] := by decide

end Gtfs.Rt
