import GtfsVerif.Model.Realtime
import GtfsVerif.Gen.Regex
import GtfsVerif.Lemmas.Decimal
/-! # C16 — NYCT trips extension derives standard fields and is transparent otherwise

Model: `nyctUpdateDesc`, `nyctUpdateTrip`, `nyctUpdateVehicle`, `nyctGetTrack`, `fixM`, `isStale`
(Model/Realtime.lean) = extensions/nycttrips. The station list, the route "M" and the NORTH/SOUTH
enum numbers are regenerated from the source (`Gen.NyctTables`); the trip-id and start-time
patterns are implemented by hand-written matchers whose regex texts are pinned below. -/
namespace Gtfs.Rt

/-! ## the regex texts the hand-written matchers implement (pinned against the source) -/

/-- `TripIDRegex` is `^([0-9]{6})_([[:alnum:]]{1,2})..([SN])([[:alnum:]]*)$` – what `matchNyctTripId` implements -/
theorem C16_tripIdRegex_pinned : Gen.Regex.TripIDRegex =
    [94, 40, 91, 48, 45, 57, 93, 123, 54, 125, 41, 95, 40, 91, 91, 58, 97, 108, 110, 117, 109, 58, 93, 93, 123, 49, 44, 50, 125, 41, 46, 46,
     40, 91, 83, 78, 93, 41, 40, 91, 91, 58, 97, 108, 110, 117, 109, 58, 93, 93, 42, 41, 36] := by decide

/-- `startTimeRegex` is `^([0-9]{2}):([0-9]{2}):([0-9]{2})$` – what `parseStartTime` implements -/
theorem C16_startTimeRegex_pinned : Gen.Regex.startTimeRegex =
    [94, 40, 91, 48, 45, 57, 93, 123, 50, 125, 41, 58, 40, 91, 48, 45, 57, 93, 123, 50, 125, 41, 58, 40, 91, 48, 45, 57, 93, 123, 50, 125, 41, 36] := by decide

/-! ## direction, vehicle, track -/

/-- **direction**: NORTH (or no direction given, the proto default) becomes direction id 0, i.e.
    `False`; SOUTH becomes 1, i.e. `True`. -/
theorem C16_direction_map (t : TripDesc) (n : NyctTripDesc) (h : t.nyct = some n) :
    (n.direction.getD Gen.NyctTables.NyctTripDescriptor_NORTH = Gen.NyctTables.NyctTripDescriptor_NORTH →
        (parseTripDescriptor (nyctUpdateDesc t).1).dir = Gen.Enums.DirectionID_False) ∧
    (n.direction = some Gen.NyctTables.NyctTripDescriptor_SOUTH →
        (parseTripDescriptor (nyctUpdateDesc t).1).dir = Gen.Enums.DirectionID_True) := by
  constructor
  · intro hd
    simp only [nyctUpdateDesc, h, hd, if_true]
    cases matchNyctTripId (t.tripId.getD []) <;> rfl
  · intro hd
    have : ¬ (Gen.NyctTables.NyctTripDescriptor_SOUTH = Gen.NyctTables.NyctTripDescriptor_NORTH) := by decide
    simp only [nyctUpdateDesc, h, hd, Option.getD_some, this, if_false]
    cases matchNyctTripId (t.tripId.getD []) <;> rfl

/-- **an assigned trip is linked to a vehicle whose id is the train id** (the extension installs
    the vehicle descriptor `{id: train_id}` on the trip update / vehicle position) -/
theorem C16_vehicle_is_train_id (t : TripDesc) (n : NyctTripDesc) (h : t.nyct = some n) (ha : n.isAssigned = some true) :
    (nyctUpdateDesc t).2.1 = some { id := some (n.trainId.getD []) } ∧ (nyctUpdateDesc t).2.2 = true := by
  simp [nyctUpdateDesc, h, ha]

theorem C16_unassigned_no_vehicle (t : TripDesc) (n : NyctTripDesc) (h : t.nyct = some n) (ha : n.isAssigned.getD false = false) :
    (nyctUpdateDesc t).2.1 = none ∧ (nyctUpdateDesc t).2.2 = false := by
  simp [nyctUpdateDesc, h, ha]

/-- **track**: the actual track when present, otherwise the scheduled one; none without NYCT data -/
theorem C16_track_rule (s : StuMsg) :
    nyctGetTrack s = (s.nyct.bind fun n => match n.actualTrack with | some a => some a | none => n.scheduledTrack) := by
  unfold nyctGetTrack
  cases s.nyct with
  | none => rfl
  | some n => cases n.actualTrack <;> rfl

/-! ## the start time: every origin time 000000–599999 -/

theorem pad2_two_digits : ∀ k, k < 100 → pad2 k = [digitChar (k / 10), digitChar (k % 10)] := by
  decide

theorem digitsVal_two (a b : Nat) (ha : a < 10) (hb : b < 10) : digitsVal [digitChar a, digitChar b] = 10 * a + b := by
  simp [digitsVal, digitVal_digitChar, Nat.mod_eq_of_lt ha, Nat.mod_eq_of_lt hb]

theorem parseStartTime_eight (a b c d e f : Nat) :
    parseStartTime (some [digitChar a, digitChar b, 58, digitChar c, digitChar d, 58, digitChar e, digitChar f])
      = (true, (((digitsVal [digitChar a, digitChar b] * 60 + digitsVal [digitChar c, digitChar d]) * 60
                  + digitsVal [digitChar e, digitChar f] : Nat) : Int)) := by
  simp [parseStartTime, digitChar_isDigit, colon]

/-- **start time**: for every origin time (hundredths of a minute after midnight) below 600000 the
    derived `HH:MM:SS` string is accepted by the start-time parser and denotes exactly
    `n * 6 / 10` seconds (truncated to whole seconds). By arithmetic, not enumeration. -/
theorem C16_start_time_all (digits : Str) (h : digitsVal digits < 600000) :
    parseStartTime (some (nyctStartTime digits)) = (true, ((digitsVal digits * 6 / 10 : Nat) : Int)) := by
  simp only [nyctStartTime]
  generalize hn : digitsVal digits = n at h
  have hs : n * 6 / 10 < 360000 := by omega
  generalize hsecs : n * 6 / 10 = secs at hs
  have h1 : secs / 60 / 60 < 100 := by omega
  have h2 : secs / 60 % 60 < 100 := by omega
  have h3 : secs % 60 < 100 := by omega
  simp only [pad2_two_digits _ h1, pad2_two_digits _ h2, pad2_two_digits _ h3, List.cons_append, List.nil_append, colon]
  rw [parseStartTime_eight]
  have d1 : secs / 60 / 60 / 10 < 10 := by omega
  have d2 : secs / 60 / 60 % 10 < 10 := by omega
  have d3 : secs / 60 % 60 / 10 < 10 := by omega
  have d4 : secs / 60 % 60 % 10 < 10 := by omega
  have d5 : secs % 60 / 10 < 10 := by omega
  have d6 : secs % 60 % 10 < 10 := by omega
  rw [digitsVal_two _ _ d1 d2, digitsVal_two _ _ d3 d4, digitsVal_two _ _ d5 d6]
  congr 2
  omega

/-- the id supplies those digits exactly when it has the NYCT format; then the descriptor's start
    time is the derived one -/
theorem C16_start_time_from_id (t : TripDesc) (n : NyctTripDesc) (d : Str) (h : t.nyct = some n)
    (hm : matchNyctTripId (t.tripId.getD []) = some d) :
    (nyctUpdateDesc t).1.startTime = some (nyctStartTime d) := by
  simp [nyctUpdateDesc, h, hm]

theorem C16_start_time_untouched (t : TripDesc) (n : NyctTripDesc) (h : t.nyct = some n)
    (hm : matchNyctTripId (t.tripId.getD []) = none) :
    (nyctUpdateDesc t).1.startTime = t.startTime := by
  simp [nyctUpdateDesc, h, hm]

/-! ## the stale filter -/

/-- **a trip is dropped exactly when** it carries the NYCT descriptor, filtering is on, it is
    unassigned, and the departure (else arrival) time of its first stop is missing (absent or 0) or
    earlier than the feed timestamp. (`preserveM` only affects stop ids, which the rule does not read.) -/
theorem C16_stale_iff (o : NyctTripsOpts) (tu : TripUpdateMsg) (t : TripDesc) (ts : Nat) (h : tu.trip = some t) :
    (nyctUpdateTrip o tu ts).2 = true ↔
      t.nyct.isSome = true ∧ o.filterStale = true ∧ (t.nyct.bind (·.isAssigned)).getD false = false ∧
      (tu.stus = [] ∨ ∃ s rest, tu.stus = s :: rest ∧
          let first := if eventTime s.departure = 0 then eventTime s.arrival else eventTime s.departure
          (first = 0 ∨ first < wrap64 ts)) := by
  have hstus : ∀ x : TripUpdateMsg, (fixM x).stus = [] ↔ x.stus = [] := by
    intro x; unfold fixM; split <;> simp
  have hfirst : ∀ x : TripUpdateMsg, ∀ s rest, x.stus = s :: rest →
      ∃ s', (fixM x).stus = s' :: rest.map fixStu ∧ s'.departure = s.departure ∧ s'.arrival = s.arrival ∨
            (fixM x).stus = s :: rest := by
    intro x s rest hx
    unfold fixM
    split
    · exact ⟨s, Or.inr hx⟩
    · refine ⟨fixStu s, Or.inl ⟨by simp [hx], ?_, ?_⟩⟩ <;> (unfold fixStu; simp only; split <;> rfl)
  have htrip : ∀ x : TripUpdateMsg, (fixM x).trip = x.trip := by intro x; unfold fixM; split <;> rfl
  unfold nyctUpdateTrip
  cases hp : o.preserveM
  · simp only [Bool.false_eq_true, if_false, htrip, h]
    cases hn : t.nyct with
    | none => simp [nyctUpdateDesc, hn]
    | some n =>
      simp only [nyctUpdateDesc, hn, Option.isSome_some, Bool.true_and, Bool.and_eq_true, Option.bind_some]
      cases hst : tu.stus with
      | nil =>
        have : (fixM tu).stus = [] := (hstus tu).mpr hst
        simp [isStale, this]
      | cons s rest =>
        obtain ⟨s', hs'⟩ := hfirst tu s rest hst
        rcases hs' with ⟨e1, e2, e3⟩ | e1
        · simp [isStale, e1, e2, e3]
        · simp [isStale, e1]
  · simp only [if_true, h]
    cases hn : t.nyct with
    | none => simp [nyctUpdateDesc, hn]
    | some n =>
      simp only [nyctUpdateDesc, hn, Option.isSome_some, Bool.true_and, Bool.and_eq_true, Option.bind_some]
      cases hst : tu.stus with
      | nil => simp [isStale]
      | cons s rest => simp [isStale]

/-! ## the M-train platform swap -/

theorem swapLast_involutive (d : UInt8) : swapLast (swapLast d) = d := by
  unfold swapLast
  by_cases h1 : d = 78
  · subst h1; decide
  · by_cases h2 : d = 83
    · subst h2; decide
    · simp [h1, h2]

/-- **the swap is its own inverse** -/
theorem C16_mswap_involutive (s : Str) : swapNS (swapNS s) = s := by
  match s with
  | [] => rfl
  | [_] => rfl
  | [_, _] => rfl
  | [_, _, _] => rfl
  | _ :: _ :: _ :: _ :: _ :: _ => rfl
  | [a, b, c, d] =>
    by_cases hb : Gen.NyctTables.buggyStationIDs.contains [a, b, c] = true
    · simp only [swapNS, hb, if_true, swapLast_involutive]
    · simp only [swapNS, hb, Bool.false_eq_true, if_false]

/-- **the swap touches nothing else**: a stop id changes only if it is one of the listed stations
    followed by `N` or `S`, and then only that last byte changes (N to S, S to N) -/
theorem C16_mswap_only_listed (s : Str) (h : swapNS s ≠ s) :
    ∃ a b c d, s = [a, b, c, d] ∧ Gen.NyctTables.buggyStationIDs.contains [a, b, c] = true ∧
      ((d = 78 ∧ swapNS s = [a, b, c, 83]) ∨ (d = 83 ∧ swapNS s = [a, b, c, 78])) := by
  match s with
  | [] => exact absurd rfl h
  | [_] => exact absurd rfl h
  | [_, _] => exact absurd rfl h
  | [_, _, _] => exact absurd rfl h
  | _ :: _ :: _ :: _ :: _ :: _ => exact absurd rfl h
  | [a, b, c, d] =>
    refine ⟨a, b, c, d, rfl, ?_⟩
    by_cases hb : Gen.NyctTables.buggyStationIDs.contains [a, b, c] = true
    · refine ⟨hb, ?_⟩
      by_cases h1 : d = 78
      · left; subst h1; exact ⟨rfl, by simp only [swapNS, hb, if_true]; rfl⟩
      · by_cases h2 : d = 83
        · right; subst h2; exact ⟨rfl, by simp only [swapNS, hb, if_true]; rfl⟩
        · exfalso; apply h
          simp only [swapNS, hb, if_true, swapLast]
          simp [h1, h2]
    · exfalso; apply h
      simp only [swapNS, hb, Bool.false_eq_true, if_false]

/-- the documented station list and route (regenerated from the source) -/
theorem C16_mswap_stations : Gen.NyctTables.buggyStationIDs = [[77, 49, 49], [77, 49, 50], [77, 49, 51], [77, 49, 52], [77, 49, 54], [77, 49, 56]]
    ∧ Gen.NyctTables.mTrainRoute = [77] := by decide

/-- the fix only ever changes stop ids of route-M trip updates, and not at all when disabled -/
theorem C16_fixM_scope (tu : TripUpdateMsg) :
    (fixM tu).trip = tu.trip ∧ (fixM tu).vehicle = tu.vehicle ∧ (fixM tu).stus.length = tu.stus.length ∧
    (((tu.trip.bind (·.routeId)).getD []) ≠ Gen.NyctTables.mTrainRoute → fixM tu = tu) := by
  unfold fixM
  split
  · rename_i h; exact ⟨rfl, rfl, rfl, fun _ => rfl⟩
  · rename_i h
    refine ⟨rfl, rfl, by simp, ?_⟩
    intro hne
    simp only [bne_iff_ne, ne_eq, Decidable.not_not] at h
    exact absurd h hne

/-! ## transparency -/

/-- **entities without NYCT extension data parse exactly as with no extension** (route other than
    M, or the fix disabled): the pre-pass leaves them alone and no track is reported -/
theorem C16_transparent_trip_update (o : NyctTripsOpts) (tu : TripUpdateMsg) (ts : Nat)
    (hn : (tu.trip.bind (·.nyct)) = none)
    (hm : o.preserveM = true ∨ ((tu.trip.bind (·.routeId)).getD []) ≠ Gen.NyctTables.mTrainRoute) :
    nyctUpdateTrip o tu ts = (tu, false) := by
  have hfix : (if o.preserveM then tu else fixM tu) = tu := by
    rcases hm with h | h
    · simp [h]
    · split
      · rfl
      · exact (C16_fixM_scope tu).2.2.2 h
  unfold nyctUpdateTrip
  simp only [hfix]
  cases ht : tu.trip with
  | none => rfl
  | some t =>
    have : t.nyct = none := by simpa [ht] using hn
    cases tu
    simp_all [nyctUpdateDesc]

theorem C16_transparent_vehicle (vp : VehiclePosMsg) (hn : (vp.trip.bind (·.nyct)) = none) : nyctUpdateVehicle vp = vp := by
  unfold nyctUpdateVehicle
  cases ht : vp.trip with
  | none => rfl
  | some t =>
    have : t.nyct = none := by simpa [ht] using hn
    cases vp
    simp_all [nyctUpdateDesc]

theorem C16_transparent_track (s : StuMsg) (h : s.nyct = none) : nyctGetTrack s = none := by
  simp [nyctGetTrack, h]

/-! ## transparency, for a whole message -/

/-- an entity without NYCT extension data (and, for a trip update, not subject to the M-train fix) -/
def PlainEntity (o : NyctTripsOpts) (e : Entity) : Prop :=
  (∀ tu, e.tripUpdate = some tu →
    (tu.trip.bind (·.nyct)) = none ∧
    (o.preserveM = true ∨ ((tu.trip.bind (·.routeId)).getD []) ≠ Gen.NyctTables.mTrainRoute) ∧
    ∀ s ∈ tu.stus, s.nyct = none) ∧
  (∀ vp, e.vehicle = some vp → (vp.trip.bind (·.nyct)) = none)

theorem parseTripUpdate_plain (o : NyctTripsOpts) (tu : TripUpdateMsg) (h : ∀ s ∈ tu.stus, s.nyct = none) :
    parseTripUpdate (.trips o) tu = parseTripUpdate .noExt tu := by
  unfold parseTripUpdate
  have hm : (tu.stus.map fun s =>
        ({ stopSequence := s.stopSequence, stopId := s.stopId, arrival := convertEvent s.arrival,
           departure := convertEvent s.departure, track := getTrack (.trips o) s, sr := s.sr.getD 0 } : StuOut))
      = tu.stus.map fun s =>
        ({ stopSequence := s.stopSequence, stopId := s.stopId, arrival := convertEvent s.arrival,
           departure := convertEvent s.departure, track := getTrack .noExt s, sr := s.sr.getD 0 } : StuOut) := by
    apply List.map_congr_left
    intro s hs
    simp [getTrack, C16_transparent_track s (h s hs)]
  cases tu.trip with
  | none => rfl
  | some t => simp only [hm]

theorem entityStep_plain (o : NyctTripsOpts) (acc : Acc) (e : Entity) (h : PlainEntity o e) :
    entityStep (.trips o) acc e = entityStep .noExt acc e := by
  unfold entityStep
  cases htu : e.tripUpdate with
  | none => rfl
  | some tu =>
    simp only
    rw [parseTripUpdate_plain o tu (h.1 tu htu).2.2]

theorem foldl_congr_mem {α β} (f g : β → α → β) (l : List α) (h : ∀ x ∈ l, ∀ b, f b x = g b x) (b : β) :
    l.foldl f b = l.foldl g b := by
  induction l generalizing b with
  | nil => rfl
  | cons x r ih =>
    simp only [List.foldl_cons]
    rw [h x (by simp) b]
    exact ih (fun y hy => h y (by simp [hy])) _

/-- **C16 (transparency).** A message whose entities carry no NYCT extension data (trip updates of
    route M only with the platform fix disabled) parses with the NYCT trips extension exactly as with
    no extension: same trips, vehicles, links and alerts. -/
theorem C16_transparent_message (o : NyctTripsOpts) (m : Msg) (h : ∀ e ∈ m.entities, PlainEntity o e) :
    parse (.trips o) m = parse .noExt m := by
  have hpre : prepass (.trips o) m = prepass .noExt m := by
    unfold prepass
    apply List.map_congr_left
    intro e he
    have hp := h e he
    cases htu : e.tripUpdate with
    | some tu =>
      simp only
      rw [C16_transparent_trip_update o tu _ (hp.1 tu htu).1 (hp.1 tu htu).2.1]
      cases e; simp_all
    | none =>
      simp only
      cases hv : e.vehicle with
      | none => rfl
      | some vp =>
        simp only
        rw [C16_transparent_vehicle vp (hp.2 vp hv)]
        cases e; simp_all
  have hrun : runEntities (.trips o) (prepass .noExt m) = runEntities .noExt (prepass .noExt m) := by
    unfold runEntities
    apply foldl_congr_mem
    intro p hp acc
    cases hs : p.2
    · simp only [Bool.false_eq_true, if_false]
      apply entityStep_plain
      -- the pre-processed entities of "no extension" are the message's own entities
      unfold prepass at hp
      simp only [List.mem_map] at hp
      obtain ⟨e, he, rfl⟩ := hp
      exact h e he
    · simp
  unfold parse
  rw [hpre, hrun]

/-- **…and in a feed that mixes NYCT-extended and plain entities**: each plain entity is handed to the
    merge loop unchanged and not skipped, and contributes to *any* state of the merge loop exactly
    what it contributes without the extension – whatever the other entities are -/
theorem C16_transparent_in_any_feed (o : NyctTripsOpts) (m : Msg) (i : Nat) (e : Entity)
    (he : m.entities[i]? = some e) (h : PlainEntity o e) :
    (prepass (.trips o) m)[i]? = some (e, false) ∧ ∀ acc, entityStep (.trips o) acc e = entityStep .noExt acc e := by
  refine ⟨?_, fun acc => entityStep_plain o acc e h⟩
  unfold prepass
  simp only [List.getElem?_map, he, Option.map_some, Option.some.injEq]
  cases htu : e.tripUpdate with
  | some tu =>
    simp only
    rw [C16_transparent_trip_update o tu _ (h.1 tu htu).1 (h.1 tu htu).2.1]
    cases e; simp_all
  | none =>
    simp only
    cases hv : e.vehicle with
    | none => rfl
    | some vp =>
      simp only
      rw [C16_transparent_vehicle vp (h.2 vp hv)]
      cases e; simp_all

/-- non-vacuity: an entity with a plain trip update on route "A" is a `PlainEntity` -/
example : PlainEntity {} { id := [101], tripUpdate := some { trip := some { tripId := some [116], routeId := some [65] }, stus := [{ stopId := some [115] }] } } := by
  refine ⟨?_, ?_⟩
  · intro tu h
    cases h
    refine ⟨rfl, Or.inr (by decide), ?_⟩
    intro s hs
    simp only [List.mem_singleton] at hs
    subst hs; rfl
  · intro vp h; cases h

/-! ## non-vacuity: 123450_A..N is an NYCT id whose origin time 1234.50 min = 20:34:30 -/
example : matchNyctTripId [49, 50, 51, 52, 53, 48, 95, 65, 46, 46, 78] = some [49, 50, 51, 52, 53, 48] := by decide
example : digitsVal [49, 50, 51, 52, 53, 48] < 600000 := by decide

end Gtfs.Rt
