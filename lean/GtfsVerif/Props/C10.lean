import GtfsVerif.Model.Static
import GtfsVerif.Gen.Columns
/-! # C10 — blank = absent = GTFS default; fill-in and inheritance rules apply, nothing else

The default constants are the ones in today's source: the `ReadOr` literals at the call sites
(`Gen.Columns.*_readOr`) and the default branches of the enum decoders (`Gen.Enums`), both
regenerated on every run. -/
namespace Gtfs.Static

/-- **blank = absent**: a default-bearing read gives the default both when the column is absent
    and when the cell is blank (and the cell's value otherwise) -/
theorem C10_blank_eq_absent (hdr row : List Str) (name dflt : Str) :
    (colIdx hdr name = none → readOr hdr row name dflt = dflt) ∧
    (∀ k, colIdx hdr name = some k → row.getD k [] = [] → readOr hdr row name dflt = dflt) ∧
    (∀ k, colIdx hdr name = some k → row.getD k [] ≠ [] → readOr hdr row name dflt = row.getD k []) := by
  refine ⟨?_, ?_, ?_⟩
  · intro h; simp only [readOr, h]
  · intro k h hb; simp only [readOr, h, hb, beq_self_eq_true, if_true]
  · intro k h hb
    have : (row.getD k [] == []) = false := by
      cases hc : (row.getD k [] == []) with
      | false => rfl
      | true => exact absurd (by simpa using hc) hb
    simp only [readOr, h, this, Bool.false_eq_true, if_false]

/-- the same for the plain optional read feeding an enum decoder: absent and blank both read `""` -/
theorem C10_optional_blank_eq_absent (hdr row : List Str) (name : Str) :
    (colIdx hdr name = none → optRead hdr row name = []) ∧
    (∀ k, colIdx hdr name = some k → row.getD k [] = [] → optRead hdr row name = []) := by
  constructor
  · intro h; simp only [optRead, cell, h]
  · intro k h hb; simp only [optRead, cell, h]; exact hb

/-- the non-empty `ReadOr` defaults the documentation names: route colour FFFFFF, text colour 000000,
    pickup / drop-off type "0", timepoint "1" -/
def documentedDefaults : List (Str × Option Str) :=
  [(c_route_color, some d_FFFFFF), (c_route_text_color, some d_000000), (c_pickup_type, some [48]), (c_drop_off_type, some [48]),
   (c_timepoint, some [49])]

/-- a column whose default comes from its enum decoder is read plainly or with the empty default -/
def readsEmpty (l : List (Str × Option Str)) (col : Str) : Bool :=
  match alookup col l with
  | none => true
  | some d => d == some []

/-- **the `ReadOr` defaults in the source are the ones the model uses** – stated so that it survives
    re-spelling (`ReadOr("")` and `Read()` are the same read; the order of the reads is immaterial): the five
    documented non-empty defaults are there with their values; the columns whose default the enum decoder
    supplies are read with the empty default; and no row loop has any other constant default -/
theorem C10_readOr_defaults_pinned :
    alookup c_route_color Gen.Columns.parseRoutes_readOr = some (some d_FFFFFF) ∧
    alookup c_route_text_color Gen.Columns.parseRoutes_readOr = some (some d_000000) ∧
    alookup c_pickup_type Gen.Columns.parseScheduledStopTimes_readOr = some (some [48]) ∧
    alookup c_drop_off_type Gen.Columns.parseScheduledStopTimes_readOr = some (some [48]) ∧
    alookup c_timepoint Gen.Columns.parseScheduledStopTimes_readOr = some (some [49]) ∧
    readsEmpty Gen.Columns.parseRoutes_readOr c_continuous_pickup = true ∧
    readsEmpty Gen.Columns.parseRoutes_readOr c_continuous_drop_off = true ∧
    readsEmpty Gen.Columns.parseScheduledStopTimes_readOr c_continuous_pickup = true ∧
    readsEmpty Gen.Columns.parseScheduledStopTimes_readOr c_continuous_drop_off = true ∧
    readsEmpty Gen.Columns.parseScheduledTrips_readOr c_direction_id = true ∧
    readsEmpty Gen.Columns.parseScheduledTrips_readOr c_bikes_allowed = true ∧
    (Gen.Columns.parseRoutes_readOr ++ Gen.Columns.parseScheduledStopTimes_readOr ++ Gen.Columns.parseScheduledTrips_readOr).all
      (fun p => p.2 == some [] || documentedDefaults.contains p) = true ∧
    Gen.Columns.parseAgencies_readOr.all (fun p => p == (c_agency_id, none)) = true := by decide

/-- **the defaults are the GTFS defaults**: regular pickup and drop-off, no continuous pickup or
    drop-off, recommended transfer, frequency-based exact_times, unspecified direction, wheelchair
    and bike information, location type stop (platform under a parent, as enums.go documents) -/
theorem C10_enum_defaults :
    Gen.Enums.parsePickupDropOffPolicy [48] = Gen.Enums.PickupDropOffPolicy_Yes ∧
    Gen.Enums.parsePickupDropOffPolicy [] = Gen.Enums.PickupDropOffPolicy_No ∧
    Gen.Enums.parseTransferType [] = Gen.Enums.TransferType_Recommended ∧
    Gen.Enums.parseExactTimes [] = Gen.Enums.FrequencyBased ∧
    Gen.Enums.parseDirectionID_GTFSStatic [] = Gen.Enums.DirectionID_Unspecified ∧
    Gen.Enums.parseWheelchairBoarding [] = Gen.Enums.WheelchairBoarding_NotSpecified ∧
    Gen.Enums.parseBikesAllowed [] = Gen.Enums.BikesAllowed_NotSpecified ∧
    Gen.Enums.parseStopType [] false = Gen.Enums.StopType_Stop ∧ Gen.Enums.parseStopType [] true = Gen.Enums.StopType_Platform ∧
    Gen.Enums.PickupDropOffPolicy_Yes = 0 ∧ Gen.Enums.PickupDropOffPolicy_No = 1 ∧ Gen.Enums.TransferType_Recommended = 0 ∧
    Gen.Enums.FrequencyBased = 0 ∧ Gen.Enums.DirectionID_Unspecified = 0 ∧ Gen.Enums.WheelchairBoarding_NotSpecified = 0 ∧
    Gen.Enums.BikesAllowed_NotSpecified = 0 ∧ Gen.Enums.StopType_Stop = 0 := by decide

/-- which decoder reads which default-bearing column (source = model) -/
theorem C10_decoders_pinned :
    Gen.Columns.parseScheduledStopTimes_decoders.contains (c_pickup_type, "parsePickupDropOffPolicy") = true ∧
    Gen.Columns.parseScheduledStopTimes_decoders.contains (c_drop_off_type, "parsePickupDropOffPolicy") = true ∧
    Gen.Columns.parseTransfers_decoders.contains (c_transfer_type, "parseTransferType") = true ∧
    Gen.Columns.parseFrequencies_decoders.contains (c_exact_times, "parseExactTimes") = true ∧
    Gen.Columns.parseScheduledTrips_decoders.contains (c_direction_id, "parseDirectionID_GTFSStatic") = true ∧
    Gen.Columns.parseScheduledTrips_decoders.contains (c_wheelchair_accessible, "parseWheelchairBoarding") = true ∧
    Gen.Columns.parseScheduledTrips_decoders.contains (c_bikes_allowed, "parseBikesAllowed") = true ∧
    Gen.Columns.parseStops_decoders.contains (c_wheelchair_boarding, "parseWheelchairBoarding") = true ∧
    Gen.Columns.parseStops_decoders.contains (c_location_type, "parseStopType") = true ∧
    Gen.Columns.parseRoutes_decoders.contains (c_continuous_pickup, "parsePickupDropOffPolicy") = true := by decide

/-- timepoint: blank or absent means exact times -/
theorem C10_timepoint_default (hdr row : List Str) (h : colIdx hdr c_timepoint = none ∨ ∃ k, colIdx hdr c_timepoint = some k ∧ row.getD k [] = []) :
    (readOr hdr row c_timepoint [49] == [49]) = true := by
  rcases h with h | ⟨k, h, hb⟩
  · simp only [readOr, h]; rfl
  · simp only [readOr, h, hb, beq_self_eq_true, if_true]

/-- **one-sided arrival / departure**: when a stop time gives only one of the two, the other takes
    the same value (and a row giving neither is rejected) -/
theorem C10_one_sided_fill (env : Env) (hdr row : List Str) (stops : List Stop) (trips : List Trip) (ti : Nat) (st : StopTime)
    (h : stopTimeOfRow env hdr row stops trips = some (ti, st)) :
    (∀ a, parseGtfsTime (optRead hdr row c_arrival_time) = some a → parseGtfsTime (optRead hdr row c_departure_time) = none →
        st.arrival = a ∧ st.departure = a) ∧
    (∀ d, parseGtfsTime (optRead hdr row c_arrival_time) = none → parseGtfsTime (optRead hdr row c_departure_time) = some d →
        st.arrival = d ∧ st.departure = d) ∧
    (∀ a d, parseGtfsTime (optRead hdr row c_arrival_time) = some a → parseGtfsTime (optRead hdr row c_departure_time) = some d →
        st.arrival = a ∧ st.departure = d) ∧
    ¬ (parseGtfsTime (optRead hdr row c_arrival_time) = none ∧ parseGtfsTime (optRead hdr row c_departure_time) = none) := by
  unfold stopTimeOfRow at h
  simp only at h
  cases ha : parseGtfsTime (optRead hdr row c_arrival_time) <;> cases hd : parseGtfsTime (optRead hdr row c_departure_time) <;>
    simp only [ha, hd] at h <;> (try (simp at h; done))
  all_goals
    split at h <;> (try (simp at h; done))
    split at h <;> (try (simp at h; done))
    split at h <;> (try (simp at h; done))
    simp only [Option.some.injEq, Prod.mk.injEq] at h
    obtain ⟨_, rfl⟩ := h
    simp

/-! ## wheelchair-boarding inheritance -/

def eraseWB (s : Stop) : Stop := { s with wheelchairBoarding := 0 }

/-- **with inheritance enabled the result is the inheritance pass applied to the result without
    it**, and the pass touches nothing but `wheelchairBoarding` -/
theorem C10_inherit_spec (floatOf : Str → Option Nat) (zoneOf : Str → Option Str) (f : Csv.File) :
    parseStops ⟨floatOf, zoneOf, true⟩ f = inheritPass (parseStops ⟨floatOf, zoneOf, false⟩ f) := by
  have hrow : ∀ hdr row, stopOfRow ⟨floatOf, zoneOf, true⟩ hdr row = stopOfRow ⟨floatOf, zoneOf, false⟩ hdr row := fun _ _ => rfl
  unfold parseStops
  simp only [hrow]
  split
  · rfl
  · simp only [if_true, Bool.false_eq_true, if_false]

theorem inheritStep_scope (ss : List Stop) (i : Nat) : (inheritStep ss i).map eraseWB = ss.map eraseWB := by
  unfold inheritStep
  cases hs : ss[i]? with
  | none => rfl
  | some s =>
    simp only
    split
    · split
      · have hi : i < ss.length := by
          rcases Nat.lt_or_ge i ss.length with hlt | hge
          · exact hlt
          · rw [List.getElem?_eq_none hge] at hs; cases hs
        apply List.ext_getElem?
        intro j
        by_cases hj : j = i
        · subst hj
          have hsj : ss[j] = s := by rw [List.getElem?_eq_getElem hi] at hs; exact Option.some.inj hs
          simp [List.getElem?_set, hi, hsj, eraseWB]
        · have hj' : i ≠ j := fun e => hj e.symm
          simp [List.getElem?_set, hj']
      · rfl
    · rfl

/-- the pass touches nothing but `wheelchairBoarding` (and keeps the number and order of stops) -/
theorem C10_inherit_scope (stops : List Stop) : (inheritPass stops).map eraseWB = stops.map eraseWB := by
  unfold inheritPass
  suffices H : ∀ (idxs : List Nat) (ss : List Stop), (idxs.foldl inheritStep ss).map eraseWB = ss.map eraseWB from H _ stops
  intro idxs
  induction idxs with
  | nil => intro ss; rfl
  | cons i r ih => intro ss; simp only [List.foldl_cons]; rw [ih, inheritStep_scope]

/-- a stop's value changes only if its own value is unspecified and its parent is a station, and then
    it becomes the parent's value -/
theorem C10_inherit_step_rule (ss : List Stop) (i : Nat) (s : Stop) (hs : ss[i]? = some s) :
    (inheritStep ss i)[i]? = some s ∨
    (∃ par, s.parent.bind (fun p => ss[p]?) = some par ∧ par.type = Gen.Enums.StopType_Station ∧
      s.wheelchairBoarding = Gen.Enums.WheelchairBoarding_NotSpecified ∧
      (inheritStep ss i)[i]? = some { s with wheelchairBoarding := par.wheelchairBoarding }) := by
  unfold inheritStep
  simp only [hs]
  cases hp : s.parent.bind (fun p => ss[p]?) with
  | none => left; simpa using hs
  | some par =>
    simp only
    split
    · rename_i hc
      right
      simp only [Bool.and_eq_true, beq_iff_eq] at hc
      have hi : i < ss.length := by
        rcases Nat.lt_or_ge i ss.length with hlt | hge
        · exact hlt
        · rw [List.getElem?_eq_none hge] at hs; cases hs
      exact ⟨par, rfl, hc.1, hc.2, by simp [List.getElem?_set, hi]⟩
    · left; exact hs

end Gtfs.Static
