import GtfsVerif.Lemmas.Journal
/-! # C14 — the journal keeps passed stops and tracks the latest prediction for the rest

Statement (properties.jsonl): after every feed that updates a trip, the trip's journal
stop-time list ends with exactly the stops of that update, in order, carrying that update's
arrival, departure and track, stamped as last observed at that feed's time and not marked past;
every entry before them was recorded from earlier feeds, is unchanged since it was last observed
and is marked past with the time of the first feed that no longer reported it; as long as the
first stop of an update is already in the list no entry before that stop is dropped.

Model: `Gtfs.Journal.updateSts` (= createPartition + Trip.update on the stop-time list),
`Trip.update`, `Trip.markPast`, `stepFeed`, `run` (= BuildJournal's loop) in Model/Journal.lean. -/
namespace Gtfs.Journal

/-- the entry an update writes: that update's stop, arrival, departure and track, observed at `t`,
    not marked past -/
theorem C14_mk_fields (t : Int) (u : Stu) :
    (mk t u).stop = u.stop.getD [] ∧ (mk t u).arr = u.arr ∧ (mk t u).dep = u.dep ∧
    (mk t u).track = u.track ∧ (mk t u).lastObs = t ∧ (mk t u).past = none := by
  simp [mk, stopOf]

/-- **T1 + T2 (list level).** After an update the list is: some prefix of the old list, each entry
    marked past at `t` unless it was already marked (`ST.markPast`), followed by exactly the
    update's stops in order. -/
theorem C14_update_shape (sts : List ST) (us : List Stu) (t : Int) :
    ∃ k, k ≤ sts.length ∧ updateSts sts us t = (sts.take k).map (ST.markPast t) ++ us.map (mk t) := by
  cases us with
  | nil => exact ⟨sts.length, Nat.le_refl _, by simp [updateSts]⟩
  | cons u0 us =>
    refine ⟨min (firstIdx (stopOf u0) sts) sts.length, Nat.min_le_right _ _, ?_⟩
    rw [updateSts_cons]
    congr 2
    exact (List.take_eq_take_min ..).symm ▸ rfl

/-- **T2, entry by entry.** An earlier entry that was already marked past is bit-for-bit unchanged;
    one that was not yet marked keeps every field and gets the mark `t`. -/
theorem C14_prefix_entries (t : Int) (s : ST) :
    (s.past ≠ none → s.markPast t = s) ∧
    (s.past = none → s.markPast t = { s with past := some t }) :=
  ⟨markPast_of_past t s, markPast_of_unmarked t s⟩

/-- **T3.** If the first updated stop occurs in the list, every entry before its first occurrence
    is kept (marked past), and the update's stops follow. -/
theorem C14_no_drop_before_first (u0 : Stu) (us : List Stu) (t : Int)
    (pre post : List ST) (s : ST) (hs : s.stop = stopOf u0) (hpre : ∀ p ∈ pre, p.stop ≠ stopOf u0) :
    updateSts (pre ++ s :: post) (u0 :: us) t = pre.map (ST.markPast t) ++ (u0 :: us).map (mk t) := by
  rw [updateSts_cons, firstIdx_of_split _ pre post s hs hpre]
  simp

/-- the trip-level `update` applies `updateSts` exactly when it is not the ignored
    "unassigned update of an assigned trip", and then does nothing at all otherwise -/
theorem C14_trip_update_sts (tr : Trip) (u : RtTrip) (t : Int) :
    (tr.update u t).sts = if tr.assigned && u.vehicle.isNone then tr.sts else updateSts tr.sts u.stus t := by
  unfold Trip.update
  split <;> simp_all

/-! ## The shape invariant over whole histories (T4) and mark stability (T5) -/

/-- every reachable stop-time list is `pre ++ cur`: `pre` entirely marked past, `cur` (the stops of
    the last applied update, while the trip is still reported) entirely unmarked – or the whole list
    is marked past (the trip vanished). -/
def Shape (sts : List ST) : Prop :=
  AllPast sts ∨ ∃ pre cur, sts = pre ++ cur ∧ AllPast pre ∧ ∀ s ∈ cur, s.past = none

theorem shape_updateSts (sts : List ST) (us : List Stu) (t : Int) : Shape (updateSts sts us t) := by
  obtain ⟨k, _, h⟩ := C14_update_shape sts us t
  refine Or.inr ⟨(sts.take k).map (ST.markPast t), us.map (mk t), h, allPast_map_markPast _ _, ?_⟩
  intro s hs
  obtain ⟨u, _, rfl⟩ := List.mem_map.mp hs
  rfl

theorem shape_trip_update (tr : Trip) (u : RtTrip) (t : Int) (h : Shape tr.sts) : Shape (tr.update u t).sts := by
  rw [C14_trip_update_sts]
  split
  · exact h
  · exact shape_updateSts _ _ _

theorem shape_trip_markPast (tr : Trip) (t : Int) : Shape (tr.markPast t).sts :=
  Or.inl (allPast_map_markPast t tr.sts)

theorem shape_applyUpdates (t : Int) (us : List RtTrip) (o : Option Trip)
    (h : ∀ tr, o = some tr → Shape tr.sts) :
    ∀ tr, applyUpdates t o us = some tr → Shape tr.sts := by
  induction us generalizing o with
  | nil => simpa [applyUpdates] using h
  | cons u us ih =>
    intro tr htr
    simp only [applyUpdates, List.foldl_cons] at htr
    refine ih (some ((o.getD newTrip).update u t)) ?_ tr htr
    intro tr' h'
    cases h'
    apply shape_trip_update
    cases o with
    | none => exact Or.inl (by intro s hs; cases hs)
    | some x => exact h x rfl

theorem shape_foldl (fs : List Feed) (s : State)
    (hs : ∀ k tr, alookup k s.trips = some tr → Shape tr.sts) :
    ∀ k tr, alookup k (fs.foldl stepFeed s).trips = some tr → Shape tr.sts := by
  induction fs generalizing s with
  | nil => simpa using hs
  | cons f fs ih =>
    simp only [List.foldl_cons]
    apply ih
    intro k tr hk
    rw [stepFeed_lookup] at hk
    obtain ⟨tr0, h0, rfl⟩ := Option.map_eq_some_iff.mp hk
    have := shape_applyUpdates f.createdAt _ (alookup k s.trips) (hs k) tr0 h0
    split
    · exact shape_trip_markPast _ _
    · exact this

/-- **T4.** In every state BuildJournal's loop can reach, every trip's stop-time list has the
    shape "marked-past part, then the unmarked stops of the latest applied update". -/
theorem C14_shape_reachable (fs : List Feed) (k : Str) (tr : Trip)
    (h : alookup k (run fs).trips = some tr) : Shape tr.sts :=
  shape_foldl fs {} (by intro k tr h; simp [alookup] at h) k tr h

/-- **T5a (mark stability).** An entry that is marked past is never modified by being marked
    again: later feeds cannot move the mark. -/
theorem C14_mark_stable (t : Int) (l : List ST) (h : AllPast l) : l.map (ST.markPast t) = l := by
  induction l with
  | nil => rfl
  | cons a as ih =>
    have ha : a.past ≠ none := h a (by simp)
    have has : AllPast as := fun s hs => h s (by simp [hs])
    simp [markPast_of_past t a ha, ih has]

/-- **T5b (the mark is the time of the first effective step that no longer reports the entry).**
    In an applied update at time `t` every kept earlier entry that was unmarked becomes marked
    with exactly `t`; in a trip-level `markPast` at `t` every unmarked entry becomes marked `t`. -/
theorem C14_mark_set_when_first_unreported (t : Int) (s : ST) (h : s.past = none) :
    (s.markPast t).past = some t := by
  rw [markPast_of_unmarked t s h]

/-! ## Journal level: what one feed does to one trip's list -/

/-- **C14 at the level of BuildJournal.** If feed `f` contains exactly one update `u` for the UID
    `k` and it is applied (the trip is not already assigned, or the update carries a vehicle), then
    after the feed the list of `k` is a marked-past prefix of its previous list followed by
    exactly `u`'s stops stamped `f.createdAt`. -/
theorem C14_feed_updates_trip (s : State) (f : Feed) (k : Str) (u : RtTrip)
    (hone : (f.trips.filter fun x => uidOfTrip x == k) = [u])
    (happlied : ¬ (((alookup k s.trips).getD newTrip).assigned && u.vehicle.isNone) = true) :
    ∃ tr', alookup k (stepFeed s f).trips = some tr' ∧
      ∃ j, j ≤ ((alookup k s.trips).getD newTrip).sts.length ∧
        tr'.sts = ((((alookup k s.trips).getD newTrip).sts.take j).map (ST.markPast f.createdAt))
                    ++ u.stus.map (mk f.createdAt) := by
  have hmem : k ∈ f.trips.map uidOfTrip := by
    have : u ∈ f.trips.filter fun x => uidOfTrip x == k := by rw [hone]; simp
    obtain ⟨hu, hk⟩ := List.mem_filter.mp this
    have hk' : uidOfTrip u = k := by simpa using hk
    exact List.mem_map.mpr ⟨u, hu, hk'⟩
  refine ⟨((alookup k s.trips).getD newTrip).update u f.createdAt, ?_, ?_⟩
  · rw [stepFeed_lookup, hone]
    simp [applyUpdates, hmem]
  · rw [C14_trip_update_sts]
    simp only [happlied, if_false, Bool.false_eq_true]
    exact C14_update_shape _ _ _

/-! ## Non-vacuity: concrete states meeting the hypotheses -/

private def sA : ST := ⟨[65], some 5, none, none, 100, none⟩
private def sB : ST := ⟨[66], none, some 7, some [50], 100, none⟩
private def uB : Stu := ⟨some [66], some 9, none, none⟩
private def uC : Stu := ⟨some [67], none, none, none⟩

/-- T3's hypotheses are met by the list `[A, B]` and the update `[B, C]`; the result keeps `A`
    (marked past at 200) and ends with the update. -/
example : updateSts ([sA] ++ sB :: []) [uB, uC] 200
    = [{ sA with past := some 200 }, mk 200 uB, mk 200 uC] := by decide

example : sB.stop = stopOf uB ∧ ∀ p ∈ [sA], p.stop ≠ stopOf uB := by decide

end Gtfs.Journal
