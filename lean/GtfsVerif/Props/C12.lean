import GtfsVerif.Lemmas.Realtime
/-! # C12 — alert informed entities are normalised without losing or inventing scope

Model: `Gtfs.Rt.parseAlert` (= realtime.go parseAlert): the selector loop `alertSelStep`, then the
route fallbacks in route-id order. All theorems hold for every alert (any number of selectors, every
presence combination). Enum constants (`RouteType_Unknown`, `DirectionID_*`) and the realtime
direction / route-type decoders come from the regenerated `Gen.Enums`. -/
namespace Gtfs.Rt

/-- the route fallbacks computed from the loop's tables, in route-id order -/
def fallbacksOf (acc : AlertAcc) : List InformedOut :=
  ((akeys acc.fromTrips).mergeSort (fun x y => strLe x y)).filterMap fun r =>
    if acc.informedRoutes.contains r then none else (alookup r acc.fromTrips).map (fallbackEntity r)

theorem fallbackEntity_route (r : Str) (dirs : Bool × Bool) : (fallbackEntity r dirs).routeId = some r := by
  unfold fallbackEntity; split <;> rfl

/-- **C12 (selectors represented, in order).** The informed entities are: for each input selector
    that informs something, in order, an entity with exactly that selector's values (`selOut`);
    followed by the route fallbacks. -/
theorem C12_selectors_in_order (id : Str) (a : AlertMsg) :
    (parseAlert id a).1.informed
      = a.informed.filterMap selOut ++ fallbacksOf (a.informed.foldl alertSelStep {}) := by
  unfold parseAlert fallbacksOf
  simp only
  rw [(foldl_informed a.informed {}).1]; simp

theorem fallbacksOf_shape (acc : AlertAcc) : ∀ f ∈ fallbacksOf acc, ∃ r dirs, f = fallbackEntity r dirs ∧
    acc.informedRoutes.contains r = false ∧ alookup r acc.fromTrips = some dirs := by
  intro f hf
  simp only [fallbacksOf, List.mem_filterMap] at hf
  obtain ⟨r, _, hr⟩ := hf
  split at hr
  · simp at hr
  · rename_i hc
    simp only [Option.map_eq_some_iff] at hr
    obtain ⟨dirs, hd, rfl⟩ := hr
    exact ⟨r, dirs, rfl, by simpa using hc, hd⟩

theorem selOut_informs (e : EntitySel) (ie : InformedOut) (h : selOut e = some ie) : informsSomething ie = true := by
  unfold selOut at h
  simp only at h
  split at h
  · simp at h
  · rename_i hinf
    split at h
    · simp only [Option.some.injEq] at h; subst h; simpa using hinf
    · rename_i hid
      simp only [Option.some.injEq] at h; subst h
      simp only [Bool.not_eq_true', Bool.not_eq_false] at hinf hid
      simp only [informsSomething, Bool.or_eq_true] at hinf ⊢
      rcases hinf with (((h1 | h1) | h1) | h1) | h1
      · exact Or.inl (Or.inl (Or.inl (Or.inl h1)))
      · exact Or.inl (Or.inl (Or.inl (Or.inr h1)))
      · exact Or.inl (Or.inl (Or.inr h1))
      · simp [hid] at h1
      · exact Or.inr h1

theorem fallback_informs (r : Str) (dirs : Bool × Bool) : informsSomething (fallbackEntity r dirs) = true := by
  unfold fallbackEntity informsSomething
  split <;> simp

/-- **C12 (every informed entity informs something)**: an agency, a route, a known route type, a
    stop or an identifiable trip. -/
theorem C12_every_entity_informs (id : Str) (a : AlertMsg) :
    ∀ ie ∈ (parseAlert id a).1.informed, informsSomething ie = true := by
  intro ie hie
  rw [C12_selectors_in_order] at hie
  rcases List.mem_append.mp hie with h1 | h1
  · obtain ⟨e, _, he⟩ := List.mem_filterMap.mp h1
    exact selOut_informs e ie he
  · obtain ⟨r, dirs, rfl, _⟩ := fallbacksOf_shape _ ie h1
    exact fallback_informs r dirs

theorem selOut_tripId (e : EntitySel) (ie : InformedOut) (h : selOut e = some ie) :
    ie.tripId = selTrip e ∧ (ie.tripId.isSome → identifies ie.tripId = true) := by
  unfold selOut at h
  unfold selTrip
  simp only at h ⊢
  split at h
  · simp at h
  · rename_i hinf
    simp only [Bool.not_eq_true', Bool.not_eq_false] at hinf
    split at h
    · rename_i hid
      simp only [Option.some.injEq] at h; subst h
      simp [hinf, hid]
    · rename_i hid
      simp only [Option.some.injEq] at h; subst h
      simp only [Bool.not_eq_true] at hid
      simp [hinf, hid]

/-- **C12 (a trip identifier only when it determines a trip, and then the trip is in Trips).**
    An informed entity carries a trip id only if `identifies` (a trip id, or route + direction +
    start time + start date); every such id is among the trips the alert contributes. -/
theorem C12_tripid_only_if_identifies (id : Str) (a : AlertMsg) :
    ∀ ie ∈ (parseAlert id a).1.informed, ∀ t, ie.tripId = some t →
      identifies (some t) = true ∧ t ∈ (parseAlert id a).2 := by
  intro ie hie t ht
  rw [C12_selectors_in_order] at hie
  rcases List.mem_append.mp hie with h1 | h1
  · obtain ⟨e, he, hse⟩ := List.mem_filterMap.mp h1
    obtain ⟨g1, g2⟩ := selOut_tripId e ie hse
    refine ⟨by simpa [ht] using g2, ?_⟩
    have : (parseAlert id a).2 = a.informed.filterMap selTrip := by
      unfold parseAlert; simp only; rw [(foldl_informed a.informed {}).2]; simp
    rw [this, List.mem_filterMap]
    exact ⟨e, he, by rw [← g1, ht]⟩
  · obtain ⟨r, dirs, rfl, _⟩ := fallbacksOf_shape _ ie h1
    unfold fallbackEntity at ht
    split at ht <;> simp at ht

/-- the trips an alert names are merged into the trip table by the entity step -/
theorem addTrip_mem (acc : Acc) (t : TripData) : (alookup t.id (addTrip acc t).trips).isSome = true := by
  simp [addTrip, alookup_aset_same]

theorem addTrip_mono (acc : Acc) (t : TripData) (k : TripID) (h : (alookup k acc.trips).isSome = true) :
    (alookup k (addTrip acc t).trips).isSome = true := by
  unfold addTrip
  by_cases hk : t.id = k
  · subst hk; simp [alookup_aset_same]
  · simp only; rw [alookup_aset_other _ _ _ _ hk]; exact h

theorem foldl_addTrip_mem (ts : List TripID) (acc : Acc) (k : TripID)
    (h : k ∈ ts ∨ (alookup k acc.trips).isSome = true) :
    (alookup k (ts.foldl (fun ac t => addTrip ac { id := t, inMessage := false }) acc).trips).isSome = true := by
  induction ts generalizing acc with
  | nil => simpa using h
  | cons t r ih =>
    simp only [List.foldl_cons]
    apply ih
    rcases h with h | h
    · rcases List.mem_cons.mp h with rfl | h
      · right; exact addTrip_mem acc { id := k, inMessage := false }
      · left; exact h
    · right; exact addTrip_mono acc _ k h

/-! ## the route fallback -/

/-- the routes named by non-identifying trip descriptors, with the directions named -/
def selRouteDir (e : EntitySel) : Option (Str × Int) :=
  match e.trip.map parseTripDescriptor with
  | some t => if !identifies (some t) && t.route != [] then some (t.route, t.dir) else none
  | none => none

theorem alertSelStep_routes (acc : AlertAcc) (e : EntitySel) :
    (alertSelStep acc e).informedRoutes = acc.informedRoutes ++ e.routeId.toList ∧
    (alertSelStep acc e).fromTrips =
      (selRouteDir e).elim acc.fromTrips (fun rd => addRouteDir acc.fromTrips rd.1 rd.2) := by
  unfold alertSelStep selRouteDir
  cases ht : e.trip with
  | none => cases hr : e.routeId <;> simp only [Option.map] <;> split <;> (try split) <;> simp_all [identifies]
  | some t =>
    by_cases hc : (!identifies (some (parseTripDescriptor t)) && (parseTripDescriptor t).route != []) = true
    · cases hr : e.routeId <;> simp only [Option.map, hc, if_true] <;> split <;> (try split) <;> simp_all
    · cases hr : e.routeId <;> simp only [Option.map, hc] <;> split <;> (try split) <;> simp_all

/-- **C12 (explicit routes win; nothing invented).** Every fallback entity is for a route that no
    selector names explicitly and that some selector's non-identifying descriptor names (it is a key
    of the table built from those descriptors); it carries nothing but the route and a direction. -/
theorem C12_fallback_only_for_unnamed_routes (id : Str) (a : AlertMsg) :
    ∀ f ∈ fallbacksOf (a.informed.foldl alertSelStep {}), ∃ r dirs,
      f = fallbackEntity r dirs ∧ (a.informed.foldl alertSelStep {}).informedRoutes.contains r = false ∧
      alookup r (a.informed.foldl alertSelStep {}).fromTrips = some dirs :=
  fallbacksOf_shape _

/-- at most one fallback per route -/
theorem C12_fallback_at_most_one_per_route (acc : AlertAcc) (h : (akeys acc.fromTrips).Nodup) :
    ((fallbacksOf acc).map (·.routeId)).Nodup := by
  unfold fallbacksOf
  have hs : ((akeys acc.fromTrips).mergeSort (fun x y => strLe x y)).Nodup :=
    (List.Perm.nodup_iff (List.mergeSort_perm _ _)).mpr h
  generalize (akeys acc.fromTrips).mergeSort (fun x y => strLe x y) = l at hs
  induction l with
  | nil => simp
  | cons r rest ih =>
    simp only [List.nodup_cons] at hs
    simp only [List.filterMap_cons]
    split
    · exact ih hs.2
    · rename_i x hx
      simp only [List.map_cons, List.nodup_cons]
      refine ⟨?_, ih hs.2⟩
      intro hmem
      obtain ⟨f, hf, hfr⟩ := List.mem_map.mp hmem
      obtain ⟨r', hr', hfr'⟩ := List.mem_filterMap.mp hf
      have hxr : x.routeId = some r := by
        split at hx
        · simp at hx
        · obtain ⟨d, _, rfl⟩ := Option.map_eq_some_iff.mp hx; exact fallbackEntity_route r d
      have hfr2 : f.routeId = some r' := by
        split at hfr'
        · simp at hfr'
        · obtain ⟨d, _, rfl⟩ := Option.map_eq_some_iff.mp hfr'; exact fallbackEntity_route r' d
      rw [hxr, hfr2] at hfr
      simp only [Option.some.injEq] at hfr
      subst hfr
      exact hs.1 hr'

/-- direction of a fallback: none when both directions (or an unspecified one) were named, else
    the single direction named -/
theorem C12_fallback_direction (r : Str) (f t : Bool) :
    (fallbackEntity r (f, t)).routeId = some r ∧ (fallbackEntity r (f, t)).routeType = Gen.Enums.RouteType_Unknown ∧
    (fallbackEntity r (f, t)).dir =
      (if f && t then 0 else if f then Gen.Enums.DirectionID_False else Gen.Enums.DirectionID_True) := by
  unfold fallbackEntity
  cases f <;> cases t <;> simp

theorem C12_addRouteDir_spec (m : List (Str × (Bool × Bool))) (r : Str) (d : Int) :
    alookup r (addRouteDir m r d) =
      some (if d = Gen.Enums.DirectionID_Unspecified then (true, true)
            else if d = Gen.Enums.DirectionID_False then (true, ((alookup r m).getD (false, false)).2)
            else (((alookup r m).getD (false, false)).1, decide (d = Gen.Enums.DirectionID_True) || ((alookup r m).getD (false, false)).2)) := by
  unfold addRouteDir
  split
  · simp [alookup_aset_same]
  · simp only [alookup_aset_same]

/-- the realtime decoders produce what the statement says: direction 0 ↦ False, any other number
    ↦ True, absent ↦ unspecified; an absent route type is `Unknown`. (Over the regenerated enums.) -/
theorem C12_decoders :
    dirRT none = Gen.Enums.DirectionID_Unspecified ∧ dirRT (some 0) = Gen.Enums.DirectionID_False ∧
    (∀ n, dirRT (some (n + 1)) = Gen.Enums.DirectionID_True) ∧ routeTypeRT none = Gen.Enums.RouteType_Unknown ∧
    Gen.Enums.DirectionID_False ≠ Gen.Enums.DirectionID_True ∧
    Gen.Enums.DirectionID_Unspecified ≠ Gen.Enums.DirectionID_True ∧ Gen.Enums.DirectionID_Unspecified ≠ Gen.Enums.DirectionID_False := by
  refine ⟨rfl, rfl, fun _ => rfl, rfl, by decide, by decide, by decide⟩

/-! ## non-vacuity -/
example : selOut { trip := some { routeId := some [66], directionId := some 1 } } = none := by decide
example : (parseAlert [97] { informed := [{ trip := some { routeId := some [66], directionId := some 1 } }] }).1.informed
    = [{ routeId := some [66], routeType := 10000, dir := 1 }] := by
  simp [parseAlert, alertSelStep, parseTripDescriptor, parseStartTime, parseStartDate, identifies, informsSomething, addRouteDir,
    fallbackEntity, routeTypeRT, dirRT, List.mergeSort, akeys, aset, alookup, Gen.Enums.DirectionID_Unspecified,
    Gen.Enums.DirectionID_False, Gen.Enums.DirectionID_True, Gen.Enums.RouteType_Unknown, Gen.Enums.routeTypeRT_nil,
    Gen.Enums.directionRT_nil, Gen.Enums.directionRT_other]

end Gtfs.Rt
