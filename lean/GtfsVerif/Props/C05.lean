import GtfsVerif.Model.Static
import GtfsVerif.Model.Realtime
import GtfsVerif.Model.Journal
import GtfsVerif.Gen.Inventory
import GtfsVerif.Gen.Columns
import GtfsVerif.Props.C03
/-! # C05 — no input can crash or hang the library  (partial by nature)

What Lean carries: every function of the model is *total* – Lean's termination checker accepted
each of them (no `partial`, no `sorry`), and every partial Go operation is written through a
totalising guard that mirrors the Go guard. What ties this to the source is the inventory
regenerated on every run: every panic-capable site (index / slice on non-maps, explicit
dereference, unchecked type assertion, `panic`) and every condition-less loop of the library is
listed below with the guard that discharges it; a new site makes `C05_inventory_discharged` fail.

What Lean cannot exhibit and is therefore exercised by the correspondence only: panics and hangs
inside archive/zip, encoding/csv, protobuf-go, text/template, regexp; memory exhaustion (out of
scope per the property). -/
namespace Gtfs

/-- every panic-capable site of the library (function and kind) with the guard that makes it safe -/
def discharged : List (String × String) := [
  ("csv.OptionalColumn.Read: index", "index is the header position of a present column; encoding/csv enforces the header width on every record (FieldsPerRecord), c.i < 0 returns early"),
  ("csv.OptionalColumn.ReadOr: index", "as Read: c.i < 0 returns early, record width = header width"),
  ("csv.RequiredColumn.Read: index", "the ten row loops return before the first NextRow when a required column is missing (Gen.Columns.*_checksMissingColumns), so c.i >= 0; c.i >= len(cells) is tested"),
  ("extensions/nyctalerts.buildMetadata: assert", "guarded by proto.HasExtension / len(...) > 0"),
  ("extensions/nyctalerts.buildMetadata: index", "guarded by proto.HasExtension / len(...) > 0"),
  ("extensions/nyctalerts.extension.UpdateAlert: deref", "ID is &entity.Id of a decoded proto2 message (required field, asserted by the harness on every sample)"),
  ("extensions/nyctalerts.extension.updateElevatorAlert: deref", "match has 4 elements when non-nil (3 groups); StopId nil-checked in the same condition"),
  ("extensions/nyctalerts.extension.updateElevatorAlert: index", "match has 4 elements when non-nil (3 groups); StopId nil-checked in the same condition"),
  ("extensions/nyctalerts.getPriorityFromInformedEntity: assert", "guarded by HasExtension; i >= 0 checked before slicing at i+1 <= len"),
  ("extensions/nyctalerts.getPriorityFromInformedEntity: slice", "guarded by HasExtension; i >= 0 checked before slicing at i+1 <= len"),
  ("extensions/nycttrips.extension.GetTrack: assert", "guarded by HasExtension; comma-ok assertion, nil-safe getters"),
  ("extensions/nycttrips.extension.updateTripOrVehicle: assert", "guarded by HasExtension; match non-nil has 5 elements"),
  ("extensions/nycttrips.extension.updateTripOrVehicle: index", "guarded by HasExtension; match non-nil has 5 elements"),
  ("extensions/nycttrips.fixMTrainPlatformsInBushwick: index", "len(stopID) == 4 checked first"),
  ("extensions/nycttrips.fixMTrainPlatformsInBushwick: slice", "len(stopID) == 4 checked first"),
  ("extensions/nycttrips.isStaleUnassignedTrip: index", "len(stopTimes) == 0 returns first"),
  ("gtfs.ParseRealtime: assert", "comma-ok assertion; opts non-nil is the caller contract (nil options pointer is outside the quantifier); map entries are created before use; sort comparators index within range"),
  ("gtfs.ParseRealtime: deref", "comma-ok assertion; opts non-nil is the caller contract (nil options pointer is outside the quantifier); map entries are created before use; sort comparators index within range"),
  ("gtfs.ParseRealtime: index", "comma-ok assertion; opts non-nil is the caller contract (nil options pointer is outside the quantifier); map entries are created before use; sort comparators index within range"),
  ("gtfs.ParseStatic: index", "len(result.Agencies) > 0 checked; range indices; sort comparators"),
  ("gtfs.StopTimeUpdate.GetArrival: deref", "nil-checked immediately before (if x != nil / early return)"),
  ("gtfs.StopTimeUpdate.GetDeparture: deref", "nil-checked immediately before (if x != nil / early return)"),
  ("gtfs.Trip.GetVehicle: deref", "nil-checked immediately before (if x != nil / early return)"),
  ("gtfs.Vehicle.GetID: deref", "nil-checked immediately before (if x != nil / early return)"),
  ("gtfs.Vehicle.GetTrip: deref", "nil-checked immediately before (if x != nil / early return)"),
  ("gtfs.convertOptionalTimestamp: deref", "nil-checked immediately before (if x != nil / early return)"),
  ("gtfs.hashNumberPtr: deref", "nil-checked immediately before (if x != nil / early return)"),
  ("gtfs.hasher.number: panic", "binary.Write fails only for types without fixed size; every argument is a fixed-size number or bool (Gen.HashSchema widths)"),
  ("gtfs.hasher.stringPtr: deref", "nil-checked immediately before (if x != nil / early return)"),
  ("gtfs.hasher.trip: deref", "nil-checked immediately before (if x != nil / early return)"),
  ("gtfs.hasher.trip: index", "range index or constant index into a fixed-size array / a regex match of fixed group count"),
  ("gtfs.mergeTrip: deref", "nil-checked immediately before (if x != nil / early return)"),
  ("gtfs.mergeVehicle: deref", "nil-checked immediately before (if x != nil / early return)"),
  ("gtfs.parseAlert: deref", "nil-checked immediately before (if x != nil / early return)"),
  ("gtfs.parseCalendar: index", "range index or constant index into a fixed-size array / a regex match of fixed group count"),
  ("gtfs.parseDirectionID_GTFSRealtime: deref", "nil-checked immediately before (if x != nil / early return)"),
  ("gtfs.parseFrequencies: deref", "nil-checked immediately before (if x != nil / early return)"),
  ("gtfs.parseGtfsTimeToDuration: index", "range index or constant index into a fixed-size array / a regex match of fixed group count"),
  ("gtfs.parseRouteType_GTFSRealtime: deref", "nil-checked immediately before (if x != nil / early return)"),
  ("gtfs.parseRoutes: index", "range index or constant index into a fixed-size array / a regex match of fixed group count"),
  ("gtfs.parseScheduledStopTimes: index", "range indices and sort comparators; thisTrip nil-checked (fix of finding D1)"),
  ("gtfs.parseScheduledTrips: index", "range index or constant index into a fixed-size array / a regex match of fixed group count"),
  ("gtfs.parseShapes: deref", "nil checks added by the fix of finding D2; sort comparators / range indices"),
  ("gtfs.parseShapes: index", "nil checks added by the fix of finding D2; sort comparators / range indices"),
  ("gtfs.parseStartDate: deref", "nil-checked immediately before (if x != nil / early return)"),
  ("gtfs.parseStartDate: index", "range index or constant index into a fixed-size array / a regex match of fixed group count"),
  ("gtfs.parseStartTime: deref", "nil-checked immediately before (if x != nil / early return)"),
  ("gtfs.parseStartTime: index", "range index or constant index into a fixed-size array / a regex match of fixed group count"),
  ("gtfs.parseStops: index", "range index or constant index into a fixed-size array / a regex match of fixed group count"),
  ("gtfs.parseTransfers: index", "range index or constant index into a fixed-size array / a regex match of fixed group count"),
  ("gtfs.parseTripUpdate: deref", "nil-checked immediately before (if x != nil / early return)"),
  ("gtfs.parseVehicle: deref", "nil-checked immediately before (if x != nil / early return)"),
  ("gtfs.parseVehicleDescriptor: deref", "nil-checked immediately before (if x != nil / early return)"),
  ("journal.BuildJournal: deref", "nil-checked immediately before (if x != nil / early return)"),
  ("journal.DirectoryGtfsrtSource.Next: index", "len(s.fileNames) == 0 returns first"),
  ("journal.DirectoryGtfsrtSource.Next: slice", "len(s.fileNames) == 0 returns first"),
  ("journal.Trip.markPast: index", "range index or constant index into a fixed-size array / a regex match of fixed group count"),
  ("journal.Trip.update: index", "len(p.past)+len(p.updated) <= len(trip.StopTimes) by construction of the partition"),
  ("journal.Trip.update: slice", "len(p.past)+len(p.updated) <= len(trip.StopTimes) by construction of the partition"),
  ("journal.buildTripUID: slice", "len(tripID) < 6 handled first (fix of finding D12)"),
  ("journal.createPartition: index", "len(updates) == 0 returns first; indices derived from range / bounded by the loop condition"),
  ("journal.createPartition: slice", "len(updates) == 0 returns first; indices derived from range / bounded by the loop condition"),
  ("journal.stopIDOrEmpty: deref", "nil-checked (fix of finding D13)")]

/-- **every panic-capable site in today's source is a discharged one** -/
theorem C05_inventory_discharged : Gen.Inventory.panicSiteKinds.all (fun s => (discharged.map (·.1)).contains s) = true := by decide

/-- **the only loops without a structural bound** are `Stop.Root` (terminates: the parent links are
    a forest, `C03_parent_forest`) and `DirectoryGtfsrtSource.Next` (the list of remaining file names
    shrinks in every iteration, `Journal.dirSource` is a `filterMap`) -/
theorem C05_unbounded_loops : Gen.Inventory.unboundedLoops = ["gtfs.Stop.Root: for {}", "journal.DirectoryGtfsrtSource.Next: for {}"] := by decide

/-- `Stop.Root` terminates on every result of the parser: the chain of parents from any stop ends -/
theorem C05_root_terminates (ids parentIds : List Str) (i : Nat) :
    ∃ k, Static.ends (Static.linkParents ids parentIds) k i = true := Static.C03_parent_forest ids parentIds i

/-- the required-column guard the `RequiredColumn.Read` index relies on is present in all ten row loops -/
theorem C05_required_column_guard :
    Gen.Columns.parseAgencies_checksMissingColumns && Gen.Columns.parseRoutes_checksMissingColumns &&
    Gen.Columns.parseStops_checksMissingColumns && Gen.Columns.parseTransfers_checksMissingColumns &&
    Gen.Columns.parseCalendar_checksMissingColumns && Gen.Columns.parseCalendarDates_checksMissingColumns &&
    Gen.Columns.parseShapes_checksMissingColumns && Gen.Columns.parseScheduledTrips_checksMissingColumns &&
    Gen.Columns.parseFrequencies_checksMissingColumns && Gen.Columns.parseScheduledStopTimes_checksMissingColumns = true := by decide

/-- the static model yields an outcome for all member bytes (it is a total function; stated for the
    record: a result or the name of the file that could not be read) -/
theorem C05_static_total (env : Static.Env) (members : List (Str × Str)) :
    (∃ r, Static.parse env members = .ok r) ∨ (∃ f, Static.parse env members = .error f) := by
  cases h : Static.parse env members with
  | ok r => exact Or.inl ⟨r, rfl⟩
  | error f => exact Or.inr ⟨f, rfl⟩

/-- the journal's UID never slices out of range: ids shorter than six bytes contribute an empty suffix -/
theorem C05_uid_short_id (start : Int) (id : Str) (h : id.length < 6) : Journal.uidOf start id = intToDec start := by
  simp [Journal.uidOf, h]

/-- a stop time update without a stop id is handled (treated as the empty id), not dereferenced -/
theorem C05_stop_id_absent (u : Journal.Stu) (h : u.stop = none) : Journal.stopOf u = [] := by
  simp [Journal.stopOf, h]

/-- the stale filter looks at the first stop time only after checking that there is one -/
theorem C05_stale_empty (feedTs : Nat) : Rt.isStale false [] feedTs = true := rfl

end Gtfs
