import GtfsVerif.Model.Static
import GtfsVerif.Model.Realtime
import GtfsVerif.Model.Journal
import GtfsVerif.Gen.Inventory
import GtfsVerif.Gen.Columns
import GtfsVerif.Props.C03
/-! # C05 — no input can crash or hang the library  (partial by nature)

What Lean carries: every function of the model is *total* – Lean's termination checker accepted
each of them (no `partial`, no `sorry`), and every partial Go operation is written through a
totalising guard that mirrors the Go guard. What ties this to the source is the inventory
regenerated on every run: every panic-capable site (index / slice on non-maps, explicit
dereference, unchecked type assertion, `panic`) and every condition-less loop of the library is
listed with the guard that discharges it – recognised by the extractor, or given by hand below; a
site that is neither makes `C05_inventory_discharged` fail.

What Lean cannot exhibit and is therefore exercised by the correspondence only: panics and hangs
inside archive/zip, encoding/csv, protobuf-go, text/template, regexp; memory exhaustion (out of
scope per the property). -/
namespace Gtfs

/-- The extractor recognises the local guard of most panic-capable sites itself (a nil check in an
    enclosing condition or an early exit before the use, the index variable of a `range` over the same
    slice, the parameters of a `sort.Slice` comparator on the same slice, a checked length, a constant
    index into a fixed-size array or into a non-nil regex match with enough groups, a comma-ok
    assertion): those are listed in `Gen.Inventory.panicSites` with `[guard: …]`. The remaining sites
    are filed by package, kind and the *type* they operate on (so that moving code or renaming
    variables does not change the key) and are discharged here by hand. -/
def discharged : List (String × String) := [
  ("csv: index []string", "cells of the current record indexed by a column's header position: c.i < 0 (absent column) returns early, and encoding/csv enforces the header width on every record (FieldsPerRecord); the ten row loops return before the first NextRow when a required column is missing (Gen.Columns.*_checksMissingColumns)"),
  ("extensions/nyctalerts: assert interface{}", "proto.GetExtension of a registered extension returns its Go type; both uses are guarded by proto.HasExtension"),
  ("extensions/nyctalerts: deref *string", "ID is &entity.Id of a decoded proto2 message whose id is a required field (Unmarshal rejects its absence; asserted by the harness on every sample)"),
  ("extensions/nyctalerts: slice string", "sortOrder[i+1:] with i = strings.LastIndex(sortOrder, \":\") >= 0 checked first, so i+1 <= len"),
  ("gtfs: deref *gtfs.ParseRealtimeOptions", "the options pointer: non-nil is the caller's contract (a nil options pointer is outside the quantifier)"),
  ("gtfs: deref *gtfs.Trip", "map entries of tripsById are created non-nil before use; mergeTrip receives such an entry"),
  ("gtfs: deref *gtfs.TripID", "parseAlert dereferences tripIDOrNil only on the path where parseOptionalTripDescriptor returned a descriptor (checked by the enclosing condition on the selector)"),
  ("gtfs: deref *gtfs.VehicleID", "a vehicle's identifier is dereferenced only on the path that files the vehicle under its identifier (`vehicle.ID != nil`, tested where the vehicle is parsed or by the caller); vehicles without identifier take the other path – both kinds of vehicle occur in every run of the malformed-input and realtime streams, which would observe the nil dereference as a panic"),
  ("gtfs: deref *gtfs.Alert", "parseAlert returns the alert it has built (by value or as a pointer to a fresh composite literal, never nil); every alert entity of every generated message passes through it"),
  ("gtfs: deref *gtfs.Vehicle", "map entries of vehiclesByID / elements of vehiclesWithNoID are created non-nil before use; mergeVehicle receives such an entry"),
  ("gtfs: index [3]int", "pieces[i] in parseGtfsTimeToDuration: i is incremented on ':' only after checking i < 2 (a third colon returns false)"),
  ("gtfs: index [7]csv.RequiredColumn", "dayColumns[i] with i ranging over the seven-element weekday table"),
  ("gtfs: index []bool", "shouldSkip has one element per entity and is indexed by the entity loop's index"),
  ("gtfs: index []gtfs.Stop", "stops[i] with i ranging over parentIDs (appended in step with stops), stops[parentStopIndex] with an index recorded from the same slice"),
  ("gtfs: panic in hasher.number", "binary.Write fails only for types without fixed size; every argument is a fixed-size number or bool (Gen.HashSchema widths)"),
  ("journal: deref *journal.Trip", "trips[tripID] for tripID collected from the keys of trips; entries are created non-nil"),
  ("journal: index []journal.StopTime", "createPartition: indices derived from the partition (firstUpdatedStopTimeIndex + i bounded by the loop condition)"),
  ("journal: index []gtfs.StopTimeUpdate", "the updates of a feed's trip indexed below the number of updates matched by the partition (<= len(updates) by the matching loop's condition); Trip.update / createPartition are modelled as Journal.update (take / zip / drop, total) and compared with the implementation after every prefix of every generated history"),
  ("journal: slice []gtfs.StopTimeUpdate", "createPartition: updateIndex <= len(updates) by the loop condition; len(updates) == 0 returns first"),
  ("journal: slice []journal.StopTime", "len(p.past)+len(p.updated) <= len(trip.StopTimes) by construction of the partition; firstUpdatedStopTimeIndex <= len(stopTimes)")]

/-- **every panic-capable site in today's source either carries a guard the extractor recognised or is
    one of the hand-discharged kinds** -/
theorem C05_inventory_discharged : Gen.Inventory.panicSiteKinds.all (fun s => (discharged.map (·.1)).contains s) = true := by decide

/-- the functions that may contain a loop without a structural bound, with the reason it ends -/
def unboundedLoopFunctions : List (String × String) := [
  ("gtfs.Stop.Root", "walks Parent links: the parent links are a forest (`C03_parent_forest`, `C05_root_terminates`)"),
  ("journal.DirectoryGtfsrtSource.Next", "consumes the list of remaining file names, which shrinks in every iteration (`Journal.dirSource` is a `filterMap` over the sorted listing)")]

/-- **the only condition-less loops** (`for { … }` with an exit inside) are in `Stop.Root` and in
    `DirectoryGtfsrtSource.Next`; such a loop anywhere else in the library fails this theorem (a loop that is given
    a condition instead leaves the list; hangs are then the business of the exploration, which runs every accessor
    under a watchdog) -/
theorem C05_unbounded_loops :
    Gen.Inventory.unboundedLoopFuncs.all (fun s => (unboundedLoopFunctions.map (·.1)).contains s) = true := by decide

/-- `Stop.Root` terminates on every result of the parser: the chain of parents from any stop ends -/
theorem C05_root_terminates (ids parentIds : List Str) (i : Nat) :
    ∃ k, Static.ends (Static.linkParents ids parentIds) k i = true := Static.C03_parent_forest ids parentIds i

/-- the required-column guard the `RequiredColumn.Read` index relies on is present in all ten row loops -/
theorem C05_required_column_guard :
    Gen.Columns.parseAgencies_checksMissingColumns && Gen.Columns.parseRoutes_checksMissingColumns &&
    Gen.Columns.parseStops_checksMissingColumns && Gen.Columns.parseTransfers_checksMissingColumns &&
    Gen.Columns.parseCalendar_checksMissingColumns && Gen.Columns.parseCalendarDates_checksMissingColumns &&
    Gen.Columns.parseShapes_checksMissingColumns && Gen.Columns.parseScheduledTrips_checksMissingColumns &&
    Gen.Columns.parseFrequencies_checksMissingColumns && Gen.Columns.parseScheduledStopTimes_checksMissingColumns = true := by decide

/-- the static model yields an outcome for all member bytes (it is a total function; stated for the
    record: a result or the name of the file that could not be read) -/
theorem C05_static_total (env : Static.Env) (members : List (Str × Str)) :
    (∃ r, Static.parse env members = .ok r) ∨ (∃ f, Static.parse env members = .error f) := by
  cases h : Static.parse env members with
  | ok r => exact Or.inl ⟨r, rfl⟩
  | error f => exact Or.inr ⟨f, rfl⟩

/-- the journal's UID never slices out of range: ids shorter than six bytes contribute an empty suffix -/
theorem C05_uid_short_id (start : Int) (id : Str) (h : id.length < 6) : Journal.uidOf start id = intToDec start := by
  simp [Journal.uidOf, h]

/-- a stop time update without a stop id is handled (treated as the empty id), not dereferenced -/
theorem C05_stop_id_absent (u : Journal.Stu) (h : u.stop = none) : Journal.stopOf u = [] := by
  simp [Journal.stopOf, h]

/-- the stale filter looks at the first stop time only after checking that there is one -/
theorem C05_stale_empty (feedTs : Nat) : Rt.isStale false [] feedTs = true := rfl

end Gtfs
