import GtfsVerif.Lemmas.Journal
import GtfsVerif.Lemmas.Decimal
import GtfsVerif.Gen.JournalFacts
/-! # C15 — the journal holds one correctly accounted entry per assigned trip in the window

Model: `Gtfs.Journal.build fs lo hi = select (run fs) lo hi` (Model/Journal.lean), where `run` is
BuildJournal's loop over the feeds and `select` the final window/assignment filter and the sort by
UID. The per-UID closed form of one feed (`stepFeed_lookup`, Lemmas/Journal.lean) reduces every
statement about the journal to statements about one trip's `update` / `markPast` steps. -/
namespace Gtfs.Journal

/-! ## order and uniqueness -/

theorem keyLe_trans (a b c : Str × Trip) : strLe a.1 b.1 = true → strLe b.1 c.1 = true → strLe a.1 c.1 = true :=
  strLe_trans

theorem keyLe_total (a b : Str × Trip) : (strLe a.1 b.1 || strLe b.1 a.1) = true := by
  rcases strLe_total a.1 b.1 with h | h <;> simp [h]

/-- **C15 (sorted, no duplicates).** The journal is strictly increasing in the trip UID. -/
theorem C15_sorted_nodup (fs : List Feed) (lo hi : Int) :
    ((build fs lo hi).map (·.uid)).Pairwise (fun a b => strLt a b = true) := by
  unfold build select
  simp only
  generalize hsel : ((run fs).trips.filter fun p => inWindow lo hi p.2 && p.2.assigned) = sel
  have hsub : sel.Sublist (run fs).trips := by rw [← hsel]; exact List.filter_sublist
  have hnd : (akeys sel).Nodup := (run_nodup fs).sublist (hsub.map _)
  have hperm := List.mergeSort_perm sel (fun a b => strLe a.1 b.1)
  have hnd' : (akeys (sel.mergeSort fun a b => strLe a.1 b.1)).Nodup :=
    (List.Perm.nodup_iff (hperm.map _)).mpr hnd
  have hsorted := List.pairwise_mergeSort (le := fun (a b : Str × Trip) => strLe a.1 b.1) keyLe_trans keyLe_total sel
  -- every entry's uid is its key
  have huid : ∀ p ∈ sel.mergeSort (fun a b => strLe a.1 b.1), p.2.uid = p.1 := by
    intro p hp
    have hp' : p ∈ (run fs).trips := hsub.subset ((List.mem_mergeSort).mp hp)
    exact run_uid fs p.1 p.2 ((mem_iff_alookup _ (run_nodup fs) p.1 p.2).mp hp')
  have hmap : (List.map (·.2) (sel.mergeSort fun a b => strLe a.1 b.1)).map (·.uid)
      = akeys (sel.mergeSort fun a b => strLe a.1 b.1) := by
    simp only [akeys, List.map_map]
    apply List.map_congr_left
    intro p hp
    exact huid p hp
  rw [hmap]
  simp only [akeys, List.pairwise_map]
  have hne : (sel.mergeSort fun a b => strLe a.1 b.1).Pairwise (fun a b => a.1 ≠ b.1) := by
    simpa [akeys, List.Nodup, List.pairwise_map] using hnd'
  refine (hsorted.and hne).imp ?_
  intro a b ⟨hle, hn⟩
  rcases strLt_trichotomy a.1 b.1 with h | h | h
  · exact h
  · exact absurd h hn
  · simp [strLe, h] at hle

/-! ## selection -/

/-- **C15 (selection).** A trip is in the journal exactly when it is the entry of some UID in the
    final state, its start time lies in the window (both ends included) and it was seen with a
    vehicle. -/
theorem C15_selection (fs : List Feed) (lo hi : Int) (tr : Trip) :
    tr ∈ build fs lo hi ↔
      ∃ k, alookup k (run fs).trips = some tr ∧ lo ≤ tr.start ∧ tr.start ≤ hi ∧ tr.assigned = true := by
  unfold build select
  simp only [List.mem_map, List.mem_mergeSort, List.mem_filter, inWindow, Bool.and_eq_true, Bool.not_eq_true',
    Bool.or_eq_false_iff, decide_eq_false_iff_not, Int.not_lt]
  constructor
  · rintro ⟨p, ⟨hp, ⟨h1, h2⟩, h3⟩, rfl⟩
    exact ⟨p.1, (mem_iff_alookup _ (run_nodup fs) p.1 p.2).mp hp, h1, h2, h3⟩
  · rintro ⟨k, hk, h1, h2, h3⟩
    exact ⟨(k, tr), ⟨(mem_iff_alookup _ (run_nodup fs) k tr).mpr hk, ⟨h1, h2⟩, h3⟩, rfl⟩

/-! ## accounting: refinement of one trip to its abstract account -/

/-- what the statement says is recorded about a trip, apart from its stop times -/
structure Account where
  assigned : Bool
  numUpdates : Int
  lastObs : Int
  past : Option Int
deriving DecidableEq, Repr

def acct (tr : Trip) : Account := ⟨tr.assigned, tr.numUpdates, tr.lastObs, tr.past⟩

/-- the specification of an update on the account: ignored when the trip is assigned and the update
    has no vehicle; otherwise counted, stamped, un-marked, and assigned once a vehicle is seen -/
def Account.update (a : Account) (hasVehicle : Bool) (t : Int) : Account :=
  if a.assigned && !hasVehicle then a
  else ⟨a.assigned || hasVehicle, a.numUpdates + 1, t, none⟩

/-- the specification of "the trip is missing from a feed at time `t`": the mark is set once -/
def Account.markPast (a : Account) (t : Int) : Account :=
  { a with past := match a.past with | none => some t | some p => some p }

/-- **C15 (accounting, refinement).** `Trip.update` acts on the account exactly as specified. -/
theorem C15_update_refines (tr : Trip) (u : RtTrip) (t : Int) :
    acct (tr.update u t) = (acct tr).update u.vehicle.isSome t := by
  unfold Trip.update Account.update acct
  cases hv : u.vehicle <;> cases ha : tr.assigned <;> simp [ha]

theorem C15_markPast_refines (tr : Trip) (t : Int) : acct (tr.markPast t) = (acct tr).markPast t := by
  simp only [Trip.markPast, Account.markPast, acct]
  cases tr.past <;> rfl

/-- an applied update records the identifier fields and vehicle id of that update -/
theorem C15_applied_identity (tr : Trip) (u : RtTrip) (t : Int) (h : ¬ (tr.assigned && u.vehicle.isNone) = true) :
    let tr' := tr.update u t
    tr'.tripId = u.id ∧ tr'.route = u.route ∧ tr'.dir = u.dir ∧ tr'.start = u.startDate + u.startTime ∧
    tr'.vehicle = u.vehicle.getD [] ∧ tr'.uid = uidOf (u.startDate + u.startTime) u.id := by
  simp only [Trip.update, h, if_false, Bool.false_eq_true]
  simp

/-- **once a trip has been seen with a vehicle, updates that lack one do not alter its recorded
    data** (nothing at all changes, stop times included) -/
theorem C15_unassigned_update_ignored (tr : Trip) (u : RtTrip) (t : Int)
    (ha : tr.assigned = true) (hv : u.vehicle = none) : tr.update u t = tr := by
  simp [Trip.update, ha, hv]

/-- marking a trip past marks all its not-yet-past stops past (and changes nothing else of them) -/
theorem C15_markPast_marks_all (tr : Trip) (t : Int) :
    (∀ s ∈ (tr.markPast t).sts, s.past ≠ none) ∧ (tr.markPast t).sts = tr.sts.map (ST.markPast t) := by
  refine ⟨?_, rfl⟩
  exact allPast_map_markPast t tr.sts

/-- the mark of a trip is set by the first feed that lacks it and not moved by later ones -/
theorem C15_mark_once (a : Account) (t₁ t₂ : Int) : ((a.markPast t₁).markPast t₂) = a.markPast t₁ := by
  cases a with
  | mk as n l p => cases p <;> simp [Account.markPast]

/-- assignment is monotone: no step un-assigns a trip -/
theorem C15_assigned_monotone (tr : Trip) (u : RtTrip) (t : Int) (h : tr.assigned = true) :
    (tr.update u t).assigned = true ∧ (tr.markPast t).assigned = true := by
  refine ⟨?_, by simpa [Trip.markPast] using h⟩
  unfold Trip.update
  split <;> simp [h]

/-- **journal level**: what feed `f` does to the entry of UID `k`, in terms of the per-trip steps
    (re-export of the closed form, so the per-trip theorems above apply to BuildJournal). -/
theorem C15_feed_closed_form (s : State) (f : Feed) (k : Str) :
    alookup k (stepFeed s f).trips
      = (applyUpdates f.createdAt (alookup k s.trips) (f.trips.filter fun u => uidOfTrip u == k)).map
          (fun tr => if s.active.contains k && !(f.trips.map uidOfTrip).contains k
                     then tr.markPast f.createdAt else tr) :=
  stepFeed_lookup s f k

/-! ## one entry per distinct (start instant, trip-id suffix): the UID -/

def idSuffix (id : Str) : Str := if id.length < 6 then [] else id.drop 6

def startsWithDigit : Str → Bool
  | [] => false
  | c :: _ => isDigit c

theorem uidOf_eq (start : Int) (id : Str) : uidOf start id = intToDec start ++ idSuffix id := rfl

theorem append_split_digits (d₁ d₂ x y : Str) (h : d₁ ++ x = d₂ ++ y) (hlen : d₁.length < d₂.length)
    (hd₂ : ∀ i (hi : i < d₂.length), 0 < i → isDigit d₂[i] = true) (h₁ : d₁ ≠ []) (hx : startsWithDigit x = false) : False := by
  have hpos : 0 < d₁.length := List.length_pos_iff.mpr h₁
  cases x with
  | nil =>
    have := congrArg List.length h
    simp at this; omega
  | cons c cs =>
    have h1 : (d₁ ++ c :: cs)[d₁.length]? = some c := by simp
    have h2 : (d₂ ++ y)[d₁.length]? = some d₂[d₁.length] := by
      rw [List.getElem?_append_left hlen]; simp [hlen]
    rw [h] at h1
    rw [h1] at h2
    have : c = d₂[d₁.length] := by simpa using h2
    have hdig := hd₂ d₁.length hlen hpos
    rw [← this] at hdig
    simp [startsWithDigit, hdig] at hx

theorem intToDec_tail_digits (a : Int) : ∀ i (hi : i < (intToDec a).length), 0 < i → isDigit (intToDec a)[i] = true := by
  obtain ⟨c, cs, h, _, hcs⟩ := intToDec_shape a
  intro i hi hpos
  have : (intToDec a)[i] ∈ cs := by
    simp only [h] at hi ⊢
    cases i with
    | zero => omega
    | succ j => simp
  exact hcs _ this

theorem intToDec_ne_nil (a : Int) : intToDec a ≠ [] := by
  obtain ⟨c, cs, h, _⟩ := intToDec_shape a
  simp [h]

/-- **C15 (UID injective), partial.** Two (start, suffix) pairs whose suffixes do not start with a
    digit (as NYCT ids, which continue with `_`) get different UIDs. -/
theorem C15_uid_injective_partial (s₁ s₂ : Int) (x₁ x₂ : Str)
    (h₁ : startsWithDigit x₁ = false) (h₂ : startsWithDigit x₂ = false)
    (h : intToDec s₁ ++ x₁ = intToDec s₂ ++ x₂) : s₁ = s₂ ∧ x₁ = x₂ := by
  have hlen : (intToDec s₁).length = (intToDec s₂).length := by
    rcases Nat.lt_trichotomy (intToDec s₁).length (intToDec s₂).length with hl | hl | hl
    · exact (append_split_digits _ _ _ _ h hl (intToDec_tail_digits s₂) (intToDec_ne_nil s₁) h₁).elim
    · exact hl
    · exact (append_split_digits _ _ _ _ h.symm hl (intToDec_tail_digits s₁) (intToDec_ne_nil s₂) h₂).elim
  obtain ⟨hd, hx⟩ := List.append_inj h hlen
  exact ⟨intToDec_injective hd, hx⟩

/-- The full statement "one entry per distinct (start instant, suffix)" would need the UID to be
    injective on all pairs. It is **false** of the code's `"%d%s"` format (finding D17): -/
def C15_uid_injective_full : Prop :=
  ∀ (s₁ s₂ : Int) (x₁ x₂ : Str), intToDec s₁ ++ x₁ = intToDec s₂ ++ x₂ → s₁ = s₂ ∧ x₁ = x₂

theorem C15_uid_collision : ¬ C15_uid_injective_full := by
  intro h
  have := h 100 1005 [53] [] (by decide)
  omega

/-! ## the UID as journal.go builds it now

`Gen.JournalFacts` is read from `buildTripUID` on every run: the prefix length (the length test and
the cut must agree) and the `Sprintf` format. `sprintf2` is the fragment of `fmt.Sprintf` that format
uses: `%d` prints the next argument – the start instant – in decimal, `%s` the next – the rest of the
id – verbatim, `%%` a percent sign, any other byte itself; a verb of the wrong kind or a missing
argument is not modelled. -/

inductive FmtArg | int (i : Int) | str (s : Str)

def sprintf2 : Str → List FmtArg → Option Str
  | [], _ => some []
  | 37 :: 100 :: r, .int i :: as => (sprintf2 r as).map (intToDec i ++ ·)
  | 37 :: 115 :: r, .str s :: as => (sprintf2 r as).map (s ++ ·)
  | 37 :: 37 :: r, as => (sprintf2 r as).map (37 :: ·)
  | 37 :: _, _ => none
  | c :: r, as => (sprintf2 r as).map (c :: ·)

/-- **the model's UID is the source's**: for every start instant and id, `uidOf` is today's format
    applied to the instant and the id without today's prefix length (nothing when it is shorter) -/
theorem C15_uid_is_source_format (start : Int) (id : Str) :
    sprintf2 Gen.JournalFacts.uidFormat
      [.int start, .str (if id.length < Gen.JournalFacts.uidPrefixLen then [] else id.drop Gen.JournalFacts.uidPrefixLen)]
      = some (uidOf start id) := by
  by_cases h : id.length < 6
  · simp [sprintf2, Gen.JournalFacts.uidFormat, Gen.JournalFacts.uidPrefixLen, uidOf, h]
  · simp [sprintf2, Gen.JournalFacts.uidFormat, Gen.JournalFacts.uidPrefixLen, uidOf, h]

/-! ## non-vacuity -/

example : startsWithDigit [95, 65] = false ∧ startsWithDigit [] = false := by decide
example : (Account.update ⟨true, 3, 10, none⟩ false 20) = ⟨true, 3, 10, none⟩ := by decide
example : (Account.update ⟨false, 0, 0, none⟩ true 20) = ⟨true, 1, 20, none⟩ := by decide

end Gtfs.Journal

namespace Gtfs.Journal

/-! ## accounting over a whole history -/

def newAcct : Account := acct newTrip

/-- what one feed does to the account of UID `k`: its updates for `k` are applied in order; if it has
    none and the previous feed had some, the trip is marked past at this feed's time.
    The state is the account (none: never seen) and whether the previous feed had the trip. -/
def acctStep (k : Str) (st : Option Account × Bool) (f : Feed) : Option Account × Bool :=
  let us := f.trips.filter fun u => uidOfTrip u == k
  let a1 := us.foldl (fun o u => some ((o.getD newAcct).update u.vehicle.isSome f.createdAt)) st.1
  ((if st.2 && us.isEmpty then a1.map (·.markPast f.createdAt) else a1), !us.isEmpty)

def acctRun (k : Str) (fs : List Feed) : Option Account × Bool := fs.foldl (acctStep k) (none, false)

theorem applyUpdates_acct (t : Int) (o : Option Trip) (us : List RtTrip) :
    (applyUpdates t o us).map acct
      = us.foldl (fun o u => some ((o.getD newAcct).update u.vehicle.isSome t)) (o.map acct) := by
  induction us generalizing o with
  | nil => rfl
  | cons u r ih =>
    simp only [applyUpdates, List.foldl_cons] at ih ⊢
    rw [ih]
    congr 1
    cases o with
    | none => simp [newAcct, C15_update_refines]
    | some tr => simp [C15_update_refines]

theorem contains_uid_iff (k : Str) (us : List RtTrip) :
    (us.map uidOfTrip).contains k = !(us.filter fun u => uidOfTrip u == k).isEmpty := by
  induction us with
  | nil => rfl
  | cons u r ih =>
    by_cases h : uidOfTrip u = k
    · simp [List.filter_cons, h]
    · have h' : (uidOfTrip u == k) = false := by simpa using h
      have h'' : ¬ k = uidOfTrip u := fun e => h e.symm
      simp only [List.map_cons, List.contains_cons, List.filter_cons, h', ih]
      simp [h'']

/-- **C15 (accounting over the whole history).** After any sequence of feeds the entry of UID `k`
    carries exactly the account the specification computes feed by feed – the updates of `k` applied
    in order (ignored once assigned when they lack a vehicle), and the mark set by the first feed from
    which `k` is missing after a feed that had it. -/
theorem C15_account_history (fs : List Feed) (k : Str) :
    (alookup k (run fs).trips).map acct = (acctRun k fs).1 ∧ (run fs).active.contains k = (acctRun k fs).2 := by
  unfold run acctRun
  suffices H : ∀ (fs : List Feed) (s : State) (st : Option Account × Bool),
      (alookup k s.trips).map acct = st.1 → s.active.contains k = st.2 →
      (alookup k (fs.foldl stepFeed s).trips).map acct = (fs.foldl (acctStep k) st).1 ∧
      (fs.foldl stepFeed s).active.contains k = (fs.foldl (acctStep k) st).2 from
    H fs {} (none, false) rfl rfl
  intro fs
  induction fs with
  | nil => intro s st h1 h2; exact ⟨h1, h2⟩
  | cons f r ih =>
    intro s st h1 h2
    simp only [List.foldl_cons]
    apply ih
    · rw [stepFeed_lookup, Option.map_map]
      unfold acctStep
      simp only
      rw [← h1, ← h2, ← applyUpdates_acct, contains_uid_iff]
      cases hc : (s.active.contains k && !!(f.trips.filter fun u => uidOfTrip u == k).isEmpty)
      · have : (s.active.contains k && (f.trips.filter fun u => uidOfTrip u == k).isEmpty) = false := by simpa using hc
        simp only [this, Bool.false_eq_true, if_false]
        cases applyUpdates f.createdAt (alookup k s.trips) (f.trips.filter fun u => uidOfTrip u == k) <;> simp [hc]
      · have : (s.active.contains k && (f.trips.filter fun u => uidOfTrip u == k).isEmpty) = true := by simpa using hc
        simp only [this, if_true, Option.map_map]
        cases applyUpdates f.createdAt (alookup k s.trips) (f.trips.filter fun u => uidOfTrip u == k) with
        | none => rfl
        | some tr => simp [hc, C15_markPast_refines]
    · rw [stepFeed_active, contains_uid_iff]
      rfl

/-- feeds that do not mention `k` -/
def Lacks (k : Str) (f : Feed) : Prop := (f.trips.filter fun u => uidOfTrip u == k) = []

theorem acctStep_lacks (k : Str) (st : Option Account × Bool) (f : Feed) (h : Lacks k f) :
    acctStep k st f = ((if st.2 then st.1.map (·.markPast f.createdAt) else st.1), false) := by
  unfold acctStep
  rw [h]
  simp

/-- **the marked-past time is the time of the first feed from which the trip was missing after its
    last update** – and later feeds lacking it change nothing: if the history is `pre`, then a feed
    `g` lacking `k`, then any number of further feeds lacking `k`, the account is the one after `pre`
    marked (once) with `g`'s time when `pre` ended with a feed that had `k`. -/
theorem C15_marked_past_time (k : Str) (pre : List Feed) (g : Feed) (rest : List Feed)
    (hg : Lacks k g) (hrest : ∀ f ∈ rest, Lacks k f) :
    (acctRun k (pre ++ g :: rest)).1
      = if (acctRun k pre).2 then (acctRun k pre).1.map (·.markPast g.createdAt) else (acctRun k pre).1 := by
  unfold acctRun
  rw [List.foldl_append, List.foldl_cons, acctStep_lacks k _ g hg]
  generalize (if (List.foldl (acctStep k) (none, false) pre).2 then Option.map (·.markPast g.createdAt) (List.foldl (acctStep k) (none, false) pre).1
    else (List.foldl (acctStep k) (none, false) pre).1) = a
  induction rest generalizing a with
  | nil => rfl
  | cons f r ih =>
    simp only [List.foldl_cons]
    rw [acctStep_lacks k _ f (hrest f (by simp))]
    simp only [Bool.false_eq_true, if_false]
    exact ih (fun x hx => hrest x (by simp [hx])) a

/-- non-vacuity: a trip seen (with a vehicle) in the first feed and missing from the next two is marked
    past with the second feed's time -/
example :
    let u : RtTrip := { id := [48, 48, 48, 49, 48, 48, 95, 65], route := [65], dir := 1, startDate := 0, startTime := 60, vehicle := some [118], stus := [] }
    (acctRun (uidOfTrip u) [{ createdAt := 10, trips := [u] }, { createdAt := 20, trips := [] }, { createdAt := 30, trips := [] }]).1
      = some ⟨true, 1, 10, some 20⟩ := by decide

end Gtfs.Journal
