import GtfsVerif.Model.Static
/-! # C09 — rejected static rows are inert, and reported warnings describe the offending row

A row is *rejected* when its row function yields nothing (`none`) or, for the two calendar folds,
leaves the table unchanged. Every collection of the model is a `filterMap` (or a fold) over the
rows, and what later passes use (the stop-linking table, the per-trip stop times, the per-trip
frequencies) is computed from the accepted rows only – so a rejected row, wherever it stands,
contributes nothing. -/
namespace Gtfs.Static

theorem filterMap_insert_none {α β} (f : α → Option β) (a b : List α) (r : α) (h : f r = none) :
    (a ++ r :: b).filterMap f = (a ++ b).filterMap f := by
  simp [List.filterMap_append, List.filterMap_cons, h]

theorem foldl_insert_id {α σ} (f : σ → α → σ) (a b : List α) (r : α) (s : σ) (h : ∀ s, f s r = s) :
    (a ++ r :: b).foldl f s = (a ++ b).foldl f s := by
  simp [List.foldl_append, List.foldl_cons, h]

/-! ## the listed rejection causes do reject -/

/-- a required value missing rejects the row (routes shown; the other files read the same way) -/
theorem C09_missing_required_rejects_route (hdr row : List Str) (ags : List Agency)
    (h : missingKeys hdr row routeRequired ≠ []) : routeOfRow hdr row ags = none := by
  unfold routeOfRow
  simp only
  split
  · rfl
  · simp [h]

theorem C09_unknown_agency_rejects_route (hdr row : List Str) (ags : List Agency)
    (hne : optRead hdr row c_agency_id ≠ []) (h : findIdx ags (fun a => a.id == optRead hdr row c_agency_id) = none) :
    routeOfRow hdr row ags = none := by
  unfold routeOfRow
  simp [hne, h]

theorem C09_missing_required_rejects_stop (env : Env) (hdr row : List Str) (h : missingKeys hdr row [c_stop_id] ≠ []) :
    stopOfRow env hdr row = none := by
  simp [stopOfRow, h]

theorem C09_rejects_transfer (hdr row : List Str) (stops : List Stop)
    (h : missingKeys hdr row [c_from_stop_id, c_to_stop_id] ≠ [] ∨
         findLastIdx stops (fun s => s.id == optRead hdr row c_from_stop_id) = none ∨
         findLastIdx stops (fun s => s.id == optRead hdr row c_to_stop_id) = none) :
    transferOfRow hdr row stops = none := by
  unfold transferOfRow
  rcases h with h | h | h
  · simp [h]
  · split
    · rfl
    · simp [h]
  · split
    · rfl
    · cases findLastIdx stops (fun s => s.id == optRead hdr row c_from_stop_id) <;> simp [h]

theorem C09_rejects_trip (hdr row : List Str) (rs : List Route) (ss : List Service) (shs : List Shape)
    (h : missingKeys hdr row tripRequired ≠ [] ∨ findLastIdx rs (fun r => r.id == optRead hdr row c_route_id) = none ∨
         findLastIdx ss (fun s => s.id == optRead hdr row c_service_id) = none) :
    tripOfRow hdr row rs ss shs = none := by
  unfold tripOfRow
  rcases h with h | h | h
  · simp [h]
  · split
    · rfl
    · simp [h]
  · split
    · rfl
    · cases findLastIdx rs (fun r => r.id == optRead hdr row c_route_id) <;> simp [h]

theorem C09_rejects_shape_row (env : Env) (hdr row : List Str)
    (h : missingKeys hdr row shapeRequired ≠ [] ∨ env.floatOf (optRead hdr row c_shape_pt_lat) = none ∨
         env.floatOf (optRead hdr row c_shape_pt_lon) = none ∨ parseInt32 (optRead hdr row c_shape_pt_sequence) = none) :
    shapeRowOf env hdr row = none := by
  unfold shapeRowOf
  rcases h with h | h | h | h
  · simp [h]
  · split
    · rfl
    · simp [h]
  · split
    · rfl
    · cases env.floatOf (optRead hdr row c_shape_pt_lat) <;> simp [h]
  · split
    · rfl
    · cases env.floatOf (optRead hdr row c_shape_pt_lat) <;> cases env.floatOf (optRead hdr row c_shape_pt_lon) <;> simp [h]

theorem C09_rejects_stop_time (env : Env) (hdr row : List Str) (stops : List Stop) (trips : List Trip)
    (h : (parseGtfsTime (optRead hdr row c_arrival_time) = none ∧ parseGtfsTime (optRead hdr row c_departure_time) = none) ∨
         atoi64 (optRead hdr row c_stop_sequence) = none) :
    stopTimeOfRow env hdr row stops trips = none := by
  unfold stopTimeOfRow
  rcases h with ⟨h1, h2⟩ | h
  · simp [h1, h2]
  · simp only
    split
    · rfl
    · simp [h]

theorem C09_rejects_calendar_row (hdr : List Str) (m : List (Str × Service)) (row : List Str)
    (h : Civil.parseDate8 (optRead hdr row c_start_date) = none ∨ Civil.parseDate8 (optRead hdr row c_end_date) = none ∨
         missingKeys hdr row calendarRequired ≠ []) :
    calendarStep hdr m row = m := by
  unfold calendarStep
  rcases h with h | h | h
  · simp [h]
  · cases Civil.parseDate8 (optRead hdr row c_start_date) <;> simp [h]
  · split
    · simp [h]
    · rfl

theorem C09_rejects_calendar_dates_row (hdr : List Str) (m : List (Str × Service)) (row : List Str)
    (h : Civil.parseDate8 (optRead hdr row c_date) = none ∨ missingKeys hdr row calendarDatesRequired ≠ []) :
    calendarDatesStep hdr m row = m := by
  unfold calendarDatesStep
  rcases h with h | h
  · simp [h]
  · split
    · rfl
    · simp [h]

/-! ## rejected rows are inert, at any position, in every file -/

theorem C09_inert_routes (hdr : List Str) (a b : List (List Str)) (r : List Str) (ags : List Agency) (be : Bool)
    (h : routeOfRow hdr r ags = none) : parseRoutes ⟨hdr, a ++ r :: b, be⟩ ags = parseRoutes ⟨hdr, a ++ b, be⟩ ags := by
  unfold parseRoutes
  simp only
  split
  · rfl
  · exact filterMap_insert_none _ a b r h

/-- stops: a rejected row adds no stop *and no parent link* – the linking table is built from the
    accepted rows (this is the statement that failed before the fix of the parent table, finding D5) -/
theorem C09_inert_stops (env : Env) (hdr : List Str) (a b : List (List Str)) (r : List Str) (be : Bool)
    (h : stopOfRow env hdr r = none) : parseStops env ⟨hdr, a ++ r :: b, be⟩ = parseStops env ⟨hdr, a ++ b, be⟩ := by
  unfold parseStops
  simp only
  rw [filterMap_insert_none _ a b r h]

theorem C09_inert_transfers (hdr : List Str) (a b : List (List Str)) (r : List Str) (stops : List Stop) (be : Bool)
    (h : transferOfRow hdr r stops = none) : parseTransfers ⟨hdr, a ++ r :: b, be⟩ stops = parseTransfers ⟨hdr, a ++ b, be⟩ stops := by
  unfold parseTransfers
  simp only
  rw [filterMap_insert_none _ a b r h]

theorem C09_inert_calendar (hdr : List Str) (a b : List (List Str)) (r : List Str) (m : List (Str × Service)) (be : Bool)
    (h : ∀ m, calendarStep hdr m r = m) : parseCalendar ⟨hdr, a ++ r :: b, be⟩ m = parseCalendar ⟨hdr, a ++ b, be⟩ m := by
  unfold parseCalendar
  simp only
  rw [foldl_insert_id _ a b r m h]

theorem C09_inert_calendar_dates (hdr : List Str) (a b : List (List Str)) (r : List Str) (m : List (Str × Service)) (be : Bool)
    (h : ∀ m, calendarDatesStep hdr m r = m) :
    parseCalendarDates ⟨hdr, a ++ r :: b, be⟩ m = parseCalendarDates ⟨hdr, a ++ b, be⟩ m := by
  unfold parseCalendarDates
  simp only
  rw [foldl_insert_id _ a b r m h]

theorem C09_inert_shapes (env : Env) (hdr : List Str) (a b : List (List Str)) (r : List Str) (be : Bool)
    (h : shapeRowOf env hdr r = none) : parseShapes env ⟨hdr, a ++ r :: b, be⟩ = parseShapes env ⟨hdr, a ++ b, be⟩ := by
  unfold parseShapes
  simp only
  rw [filterMap_insert_none _ a b r h]

theorem C09_inert_trips (hdr : List Str) (a b : List (List Str)) (r : List Str) (rs : List Route) (ss : List Service)
    (shs : List Shape) (be : Bool) (h : tripOfRow hdr r rs ss shs = none) :
    parseTrips ⟨hdr, a ++ r :: b, be⟩ rs ss shs = parseTrips ⟨hdr, a ++ b, be⟩ rs ss shs := by
  unfold parseTrips
  simp only
  rw [filterMap_insert_none _ a b r h]

theorem C09_inert_frequencies (hdr : List Str) (a b : List (List Str)) (r : List Str) (trips : List Trip) (be : Bool)
    (h : freqOfRow hdr r trips = none) : addFrequencies ⟨hdr, a ++ r :: b, be⟩ trips = addFrequencies ⟨hdr, a ++ b, be⟩ trips := by
  unfold addFrequencies
  simp only
  rw [filterMap_insert_none _ a b r h]

/-- stop times: the per-trip lists are computed from the accepted rows, so a rejected row (an
    unknown trip after a known one included – finding D1) changes nothing -/
theorem C09_inert_stop_times (env : Env) (hdr : List Str) (a b : List (List Str)) (r : List Str) (stops : List Stop)
    (trips : List Trip) (be : Bool) (h : stopTimeOfRow env hdr r stops trips = none) :
    addStopTimes env ⟨hdr, a ++ r :: b, be⟩ stops trips = addStopTimes env ⟨hdr, a ++ b, be⟩ stops trips := by
  unfold addStopTimes
  simp only
  rw [filterMap_insert_none _ a b r h]

/-! ## warnings describe the offending row -/

/-- every warning of agency.txt names the file, a 1-based row number and exactly the cells of that
    row (and the header); row number 0 is the header itself (missing columns) -/
theorem C09_warning_describes_row (f : Csv.File) :
    ∀ w ∈ (parseAgencies f).2, w.file = f_agency ∧ w.header = f.header ∧
      ((w.rowNumber = 0 ∧ w.rowContent = f.header) ∨
       (1 ≤ w.rowNumber ∧ f.rows[w.rowNumber - 1]? = some w.rowContent)) := by
  unfold parseAgencies
  simp only
  split
  · intro w hw
    simp only [List.mem_singleton] at hw
    subst hw
    exact ⟨rfl, rfl, Or.inl ⟨rfl, rfl⟩⟩
  · -- the fold: after processing a prefix `pre` of the rows the counter is `pre.length` and every
    -- warning so far describes a row of `pre`
    suffices H : ∀ (rest pre : List (List Str)) (acc : List Agency × List Warning × Nat), f.rows = pre ++ rest →
        acc.2.2 = pre.length →
        (∀ w ∈ acc.2.1, w.file = f_agency ∧ w.header = f.header ∧ 1 ≤ w.rowNumber ∧ f.rows[w.rowNumber - 1]? = some w.rowContent) →
        ∀ w ∈ (rest.foldl (fun (acc : List Agency × List Warning × Nat) (row : List Str) =>
            let n := acc.2.2 + 1
            let name := optRead f.header row (agencyRequired.getD 0 [])
            let a : Agency :=
              { id := readOr f.header row c_agency_id (name ++ s_id_suffix), name := name,
                url := optRead f.header row (agencyRequired.getD 1 []), timezone := optRead f.header row (agencyRequired.getD 2 []),
                language := optRead f.header row c_agency_lang, phone := optRead f.header row c_agency_phone,
                fareUrl := optRead f.header row c_agency_fare_url, email := optRead f.header row c_agency_email }
            let mk := missingKeys f.header row agencyRequired
            if mk ≠ [] then (acc.1, acc.2.1 ++ [⟨f_agency, n, row, f.header, .agencyMissingValues a.id mk⟩], n)
            else (acc.1 ++ [a], acc.2.1, n)) acc).2.1,
          w.file = f_agency ∧ w.header = f.header ∧ 1 ≤ w.rowNumber ∧ f.rows[w.rowNumber - 1]? = some w.rowContent by
      intro w hw
      obtain ⟨h1, h2, h3, h4⟩ := H f.rows [] ([], [], 0) rfl rfl (by simp) w hw
      exact ⟨h1, h2, Or.inr ⟨h3, h4⟩⟩
    intro rest
    induction rest with
    | nil => intro pre acc _ _ hacc; simpa using hacc
    | cons row rest ih =>
      intro pre acc hrows hn hacc
      simp only [List.foldl_cons]
      apply ih (pre ++ [row])
      · simp [hrows]
      · split <;> simp [hn]
      · intro w hw
        split at hw
        · simp only [List.mem_append, List.mem_singleton] at hw
          rcases hw with hw | hw
          · exact hacc w hw
          · subst hw
            refine ⟨rfl, rfl, by simp, ?_⟩
            simp [hn, hrows]
        · exact hacc w hw

end Gtfs.Static
