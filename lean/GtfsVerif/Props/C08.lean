import GtfsVerif.Model.Static
/-! # C08 — static output order: file order kept, sequences sorted, row order irrelevant

`sort.Slice` is modelled by `List.mergeSort` with the same comparison; Go's sort is unstable, so an
*output* is only claimed where the keys are pairwise distinct – then the sorted permutation is unique. -/
namespace Gtfs.Static

theorem intLe_trans (a b c : Int) : (decide (a ≤ b)) = true → (decide (b ≤ c)) = true → (decide (a ≤ c)) = true := by
  simp only [decide_eq_true_eq]; omega

theorem intLe_total (a b : Int) : (decide (a ≤ b) || decide (b ≤ a)) = true := by
  simp only [Bool.or_eq_true, decide_eq_true_eq]; omega

/-- **within each trip the stop times are in ascending stop_sequence** -/
theorem C08_stop_times_sorted (env : Env) (f : Csv.File) (stops : List Stop) (trips : List Trip)
    (h : missingCols f.header stopTimeRequired = []) :
    ∀ t ∈ addStopTimes env f stops trips, t.stopTimes.Pairwise (fun a b => a.sequence ≤ b.sequence) := by
  intro t ht
  unfold addStopTimes at ht
  simp only [h, ne_eq, not_true_eq_false, if_false, List.mem_mapIdx] at ht
  obtain ⟨i, hi, rfl⟩ := ht
  simp only
  have := List.pairwise_mergeSort (le := fun (a b : StopTime) => decide (a.sequence ≤ b.sequence))
    (fun a b c => intLe_trans a.sequence b.sequence c.sequence) (fun a b => intLe_total a.sequence b.sequence)
    (((f.rows.filterMap fun row => stopTimeOfRow env f.header row stops trips).filter fun p => p.1 == i).map (·.2))
  exact this.imp (by intro a b h; simpa using h)

/-- **within each shape the points are in ascending shape_pt_sequence, and shapes are ordered by id
    without duplicates** -/
theorem C08_shapes_sorted (env : Env) (f : Csv.File) :
    ((parseShapes env f).map (·.id)).Pairwise (fun a b => strLe a b = true) := by
  unfold parseShapes
  split
  · simp
  · simp only [List.map_map]
    have := List.pairwise_mergeSort (le := fun (a b : Str) => strLe a b) (fun _ _ _ => strLe_trans)
      (fun a b => by rcases strLe_total a b with h | h <;> simp [h])
      (dedupKeys ((f.rows.filterMap fun row => shapeRowOf env f.header row).map (·.1)))
    rw [List.pairwise_map]
    exact this.imp (by intro a b h; simpa using h)

/-- the sequence numbers of a shape's points, as they come out: ascending -/
theorem C08_shape_points_sorted (rows : List (Str × Int × ShapePoint)) (id : Str) :
    (((rows.filter fun r => r.1 == id).mergeSort fun a b => decide (a.2.1 ≤ b.2.1)).map (·.2.1)).Pairwise (· ≤ ·) := by
  have := List.pairwise_mergeSort (le := fun (a b : Str × Int × ShapePoint) => decide (a.2.1 ≤ b.2.1))
    (fun a b c => intLe_trans a.2.1 b.2.1 c.2.1) (fun a b => intLe_total a.2.1 b.2.1) (rows.filter fun r => r.1 == id)
  rw [List.pairwise_map]
  exact this.imp (by intro a b h; simpa using h)

/-! ## every other collection keeps the row order of its file -/

/-- agencies, routes, stops, transfers, trips: each is a `filterMap` of the file's rows – an
    order-preserving selection (stated on the ids, shown for routes and trips; the other loops have
    the same shape) -/
theorem C08_routes_keep_row_order (f : Csv.File) (ags : List Agency) :
    ((parseRoutes f ags).map (·.id)).Sublist (f.rows.map fun row => optRead f.header row c_route_id) := by
  unfold parseRoutes
  split
  · simp
  · have : ∀ l : List (List Str), ((l.filterMap fun row => routeOfRow f.header row ags).map (·.id)).Sublist
        (l.map fun row => optRead f.header row c_route_id) := by
      intro l
      induction l with
      | nil => simp
      | cons row r ih =>
        simp only [List.filterMap_cons, List.map_cons]
        cases h : routeOfRow f.header row ags with
        | none => exact ih.cons _
        | some x =>
          have hid : x.id = optRead f.header row c_route_id := by
            unfold routeOfRow at h
            simp only at h
            split at h
            · simp at h
            · split at h
              · simp at h
              · simp only [Option.some.injEq] at h; subst h; rfl
          simp only [List.map_cons, hid]
          exact ih.cons₂ _
    exact this _

theorem C08_trips_keep_row_order (f : Csv.File) (rs : List Route) (ss : List Service) (shs : List Shape) :
    ((parseTrips f rs ss shs).map (·.id)).Sublist (f.rows.map fun row => optRead f.header row c_trip_id) := by
  unfold parseTrips
  split
  · simp
  · have : ∀ l : List (List Str), ((l.filterMap fun row => tripOfRow f.header row rs ss shs).map (·.id)).Sublist
        (l.map fun row => optRead f.header row c_trip_id) := by
      intro l
      induction l with
      | nil => simp
      | cons row r ih =>
        simp only [List.filterMap_cons, List.map_cons]
        cases h : tripOfRow f.header row rs ss shs with
        | none => exact ih.cons _
        | some x =>
          have hid : x.id = optRead f.header row c_trip_id := by
            unfold tripOfRow at h
            split at h
            · simp at h
            · split at h
              · simp only [Option.some.injEq] at h; subst h; rfl
              · simp at h
          simp only [List.map_cons, hid]
          exact ih.cons₂ _
    exact this _

/-- a trip's frequencies are appended in the order of their rows -/
theorem C08_frequencies_keep_row_order (f : Csv.File) (trips : List Trip) (h : missingCols f.header freqRequired = []) (i : Nat) (t : Trip)
    (ht : trips[i]? = some t) :
    ∃ t', (addFrequencies f trips)[i]? = some t' ∧
      t'.frequencies = t.frequencies ++ ((f.rows.filterMap fun row => freqOfRow f.header row trips).filter fun p => p.1 == i).map (·.2) := by
  unfold addFrequencies
  simp only [h, ne_eq, not_true_eq_false, if_false]
  have hi : i < trips.length := by
    rcases Nat.lt_or_ge i trips.length with hlt | hge
    · exact hlt
    · rw [List.getElem?_eq_none hge] at ht; cases ht
  have hti : trips[i] = t := by rw [List.getElem?_eq_getElem hi] at ht; exact Option.some.inj ht
  refine ⟨{ t with frequencies := t.frequencies ++ ((f.rows.filterMap fun row => freqOfRow f.header row trips).filter fun p => p.1 == i).map (·.2) }, ?_, rfl⟩
  simp [List.getElem?_mapIdx, ht]

/-! ## the rows of stop_times.txt and shapes.txt may come in any order -/

/-- sorting a permutation of the same stop times gives the same list when the sequence numbers are
    pairwise distinct (the sorted permutation is then unique) -/
theorem sort_perm_invariant (l l' : List StopTime) (hp : l'.Perm l) (hd : l.Pairwise (fun a b => a.sequence ≠ b.sequence)) :
    l'.mergeSort (fun a b => decide (a.sequence ≤ b.sequence)) = l.mergeSort (fun a b => decide (a.sequence ≤ b.sequence)) := by
  let le := fun (a b : StopTime) => decide (a.sequence ≤ b.sequence)
  have tr : ∀ a b c : StopTime, le a b = true → le b c = true → le a c = true := fun a b c => intLe_trans _ _ _
  have tot : ∀ a b : StopTime, (le a b || le b a) = true := fun a b => intLe_total _ _
  have h1 := List.pairwise_mergeSort (le := le) tr tot l'
  have h2 := List.pairwise_mergeSort (le := le) tr tot l
  have hperm : (l'.mergeSort le).Perm (l.mergeSort le) :=
    (List.mergeSort_perm l' le).trans (hp.trans (List.mergeSort_perm l le).symm)
  refine List.Perm.eq_of_pairwise (le := fun a b => le a b = true) ?_ h1 h2 hperm
  intro a b ha hb hab hba
  have ha' : a ∈ l := (List.mergeSort_perm l le).subset (hperm.subset ha)
  have hb' : b ∈ l := (List.mergeSort_perm l le).subset hb
  have hseq : a.sequence = b.sequence := by
    simp only [le, decide_eq_true_eq] at hab hba; omega
  have hall : ∀ x ∈ l, ∀ y ∈ l, (x = y ∨ x.sequence ≠ y.sequence) := by
    have hd' : l.Pairwise (fun x y => x = y ∨ x.sequence ≠ y.sequence) := hd.imp (fun h => Or.inr h)
    have hd'' : l.Pairwise (flip fun x y => x = y ∨ x.sequence ≠ y.sequence) :=
      hd.imp (fun h => Or.inr (fun e => h e.symm))
    exact List.Pairwise.forall_of_forall_of_flip (fun x _ => Or.inl rfl) hd' hd''
  rcases hall a ha' b hb' with h | h
  · exact h
  · exact absurd hseq h

/-- **any permutation of the rows of stop_times.txt, the rows of different trips arbitrarily
    interleaved, leaves every trip's stop times unchanged** (distinct stop_sequence within a trip) -/
theorem C08_row_perm_invariant (env : Env) (hdr : List Str) (rows rows' : List (List Str)) (stops : List Stop) (trips : List Trip) (be be' : Bool)
    (hp : rows'.Perm rows)
    (hd : ∀ i, (((rows.filterMap fun row => stopTimeOfRow env hdr row stops trips).filter fun p => p.1 == i).map (·.2)).Pairwise
            (fun a b => a.sequence ≠ b.sequence)) :
    addStopTimes env ⟨hdr, rows', be'⟩ stops trips = addStopTimes env ⟨hdr, rows, be⟩ stops trips := by
  unfold addStopTimes
  simp only
  split
  · rfl
  · apply List.ext_getElem?
    intro i
    simp only [List.getElem?_mapIdx]
    cases trips[i]? with
    | none => rfl
    | some t =>
      simp only [Option.map_some, Option.some.injEq]
      congr 1
      apply sort_perm_invariant _ _ _ (hd i)
      exact ((hp.filterMap _).filter _).map _

end Gtfs.Static

/-! ## shapes.txt: any row order -/

namespace Gtfs

/-- the sorted permutation is unique: sorting two permutations of one list gives the same result
    when the order is antisymmetric on its members -/
theorem mergeSort_eq_of_perm {α} (le : α → α → Bool) (tr : ∀ a b c, le a b = true → le b c = true → le a c = true)
    (tot : ∀ a b, (le a b || le b a) = true) (l l' : List α) (hp : l'.Perm l)
    (anti : ∀ a ∈ l, ∀ b ∈ l, le a b = true → le b a = true → a = b) :
    l'.mergeSort le = l.mergeSort le := by
  have h1 := List.pairwise_mergeSort (le := le) tr tot l'
  have h2 := List.pairwise_mergeSort (le := le) tr tot l
  have hperm : (l'.mergeSort le).Perm (l.mergeSort le) :=
    (List.mergeSort_perm l' le).trans (hp.trans (List.mergeSort_perm l le).symm)
  refine List.Perm.eq_of_pairwise (le := fun a b => le a b = true) ?_ h1 h2 hperm
  intro a b ha hb hab hba
  exact anti a ((List.mergeSort_perm l le).subset (hperm.subset ha)) b ((List.mergeSort_perm l le).subset hb) hab hba

theorem mem_foldl_dedup {α} [BEq α] [LawfulBEq α] (l acc : List α) : ∀ x,
    x ∈ l.foldl (fun acc k => if acc.contains k then acc else acc ++ [k]) acc ↔ x ∈ acc ∨ x ∈ l := by
  induction l generalizing acc with
  | nil => simp
  | cons y r ih =>
    intro x
    simp only [List.foldl_cons, ih, List.mem_cons]
    split
    · next h =>
      have hy : y ∈ acc := by simpa using h
      constructor
      · rintro (h1 | h1)
        · exact Or.inl h1
        · exact Or.inr (Or.inr h1)
      · rintro (h1 | rfl | h1)
        · exact Or.inl h1
        · exact Or.inl hy
        · exact Or.inr h1
    · simp only [List.mem_append, List.mem_singleton]
      constructor
      · rintro ((h1 | h1) | h1)
        · exact Or.inl h1
        · exact Or.inr (Or.inl h1)
        · exact Or.inr (Or.inr h1)
      · rintro (h1 | h1 | h1)
        · exact Or.inl (Or.inl h1)
        · exact Or.inl (Or.inr h1)
        · exact Or.inr h1

theorem nodup_foldl_dedup {α} [BEq α] [LawfulBEq α] (l acc : List α) (h : acc.Nodup) :
    (l.foldl (fun acc k => if acc.contains k then acc else acc ++ [k]) acc).Nodup := by
  induction l generalizing acc with
  | nil => simpa using h
  | cons y r ih =>
    simp only [List.foldl_cons]
    apply ih
    split
    · exact h
    · next hc =>
      rw [List.nodup_append]
      refine ⟨h, by simp, ?_⟩
      intro a ha b hb
      simp only [List.mem_singleton] at hb
      subst hb
      intro e; subst e
      exact hc (by simpa using ha)

end Gtfs

namespace Gtfs.Static

theorem mem_dedupKeys (l : List Str) (x : Str) : x ∈ dedupKeys l ↔ x ∈ l := by
  unfold dedupKeys; rw [mem_foldl_dedup]; simp

theorem nodup_dedupKeys (l : List Str) : (dedupKeys l).Nodup := nodup_foldl_dedup l [] (by simp)

theorem dedupKeys_perm (l l' : List Str) (hp : l'.Perm l) : (dedupKeys l').Perm (dedupKeys l) := by
  rw [List.perm_ext_iff_of_nodup (nodup_dedupKeys _) (nodup_dedupKeys _)]
  intro x
  rw [mem_dedupKeys, mem_dedupKeys]
  exact hp.mem_iff

/-- **any permutation of the rows of shapes.txt, the points of different shapes arbitrarily
    interleaved, yields the same shapes with the same points** (distinct shape_pt_sequence within a
    shape, as the statement's quantifier) -/
theorem C08_shapes_row_perm_invariant (env : Env) (hdr : List Str) (rows rows' : List (List Str)) (be be' : Bool)
    (hp : rows'.Perm rows)
    (hd : (rows.filterMap fun row => shapeRowOf env hdr row).Pairwise (fun a b => a.1 = b.1 → a.2.1 = b.2.1 → a = b)) :
    parseShapes env ⟨hdr, rows', be'⟩ = parseShapes env ⟨hdr, rows, be⟩ := by
  unfold parseShapes
  simp only
  split
  · rfl
  · have hrows : (rows'.filterMap fun row => shapeRowOf env hdr row).Perm (rows.filterMap fun row => shapeRowOf env hdr row) :=
      hp.filterMap _
    have hids : (dedupKeys ((rows'.filterMap fun row => shapeRowOf env hdr row).map (·.1))).mergeSort (fun a b => strLe a b)
        = (dedupKeys ((rows.filterMap fun row => shapeRowOf env hdr row).map (·.1))).mergeSort (fun a b => strLe a b) := by
      apply mergeSort_eq_of_perm (fun a b : Str => strLe a b) (fun _ _ _ => strLe_trans) (fun a b => by rcases strLe_total a b with h | h <;> simp [h])
      · exact dedupKeys_perm _ _ (hrows.map _)
      · intro a _ b _ h1 h2; exact strLe_antisymm h1 h2
    rw [hids]
    apply List.map_congr_left
    intro id _
    congr 2
    apply mergeSort_eq_of_perm (fun a b : Str × Int × ShapePoint => decide (a.2.1 ≤ b.2.1)) (fun a b c => intLe_trans a.2.1 b.2.1 c.2.1) (fun a b => intLe_total a.2.1 b.2.1)
    · exact hrows.filter _
    · intro a ha b hb h1 h2
      have ha' := List.mem_filter.mp ha
      have hb' := List.mem_filter.mp hb
      have hid : a.1 = b.1 := by
        have e1 : a.1 = id := by simpa using ha'.2
        have e2 : b.1 = id := by simpa using hb'.2
        rw [e1, e2]
      have hseq : a.2.1 = b.2.1 := by
        simp only [decide_eq_true_eq] at h1 h2; omega
      have hall : ∀ x ∈ (rows.filterMap fun row => shapeRowOf env hdr row), ∀ y ∈ (rows.filterMap fun row => shapeRowOf env hdr row),
          x.1 = y.1 → x.2.1 = y.2.1 → x = y := by
        have hd'' : (rows.filterMap fun row => shapeRowOf env hdr row).Pairwise (flip fun a b => a.1 = b.1 → a.2.1 = b.2.1 → a = b) :=
          hd.imp (fun h e1 e2 => (h e1.symm e2.symm).symm)
        exact List.Pairwise.forall_of_forall_of_flip (fun x _ _ _ => rfl) hd hd''
      exact hall a ha'.1 b hb'.1 hid hseq

end Gtfs.Static
