import GtfsVerif.Lemmas.RealtimeLinks
/-! # C04 — trips and vehicles associated in a feed point at each other

Model: the association tables `tripToVeh` / `vehToTrip` / `noIdLinks` filled by `entityStep` and
the link resolution of `finish` (Model/Realtime.lean). In the model a pointer is observed through
the *data* it reaches (`TripOut.vehicle`, `VehicleOut.trip`); that the Go pointers really are
mutual (`t.Vehicle.Trip.Vehicle == t.Vehicle`) is the oracle's pointer walk on the implementation. -/
namespace Gtfs.Rt

/-- **one entity that associates a trip with a vehicle carrying an id records the association
    both ways** (whether the entity is a trip update with a vehicle descriptor or a vehicle position
    with a trip descriptor) -/
theorem C04_assoc_both_ways_trip_update (ext : Ext) (acc : Acc) (e : Entity) (tu : TripUpdateMsg)
    (t : TripData) (v : VehData) (vid : VehicleID)
    (he : e.tripUpdate = some tu) (hp : parseTripUpdate ext tu = some (t, some v)) (hv : v.id = some vid) :
    alookup t.id (entityStep ext acc e).tripToVeh = some vid ∧
    alookup vid (entityStep ext acc e).vehToTrip = some t.id := by
  unfold entityStep
  simp [he, hp, hv, alookup_aset_same]

theorem C04_assoc_both_ways_vehicle_position (ext : Ext) (acc : Acc) (e : Entity) (vp : VehiclePosMsg)
    (t : TripData) (vid : VehicleID)
    (he : e.tripUpdate = none) (hvp : e.vehicle = some vp) (ht : (parseVehicle vp).1 = some t)
    (hv : (parseVehicle vp).2.id = some vid) :
    alookup t.id (entityStep ext acc e).tripToVeh = some vid ∧
    alookup vid (entityStep ext acc e).vehToTrip = some t.id := by
  unfold entityStep
  simp [he, hvp, ht, hv, alookup_aset_same]

/-- an id-less vehicle associated with a trip is remembered as a link to exactly that vehicle
    (its position in the list of id-less vehicles) -/
theorem C04_assoc_idless (ext : Ext) (acc : Acc) (e : Entity) (vp : VehiclePosMsg) (t : TripData)
    (he : e.tripUpdate = none) (hvp : e.vehicle = some vp) (ht : (parseVehicle vp).1 = some t)
    (hv : (parseVehicle vp).2.id = none) :
    (entityStep ext acc e).noIdLinks = acc.noIdLinks ++ [(t.id, acc.noId.length)] ∧
    (entityStep ext acc e).noId = acc.noId ++ [(parseVehicle vp).2] := by
  unfold entityStep
  simp [he, hvp, ht, hv, addTrip]

/-- **links are mutual and lead to the list entries' content.** If the tables associate trip `t`
    with vehicle `vid` both ways, then in the result the Trips entry of `t` has a vehicle reference
    whose content is the Vehicles entry of `vid`, and that Vehicles entry has a trip reference
    whose content is the Trips entry of `t`. -/
theorem C04_links_mutual (createdAt : Int) (acc : Acc) (t : TripID) (td : TripData) (vid : VehicleID) (vd : VehData)
    (ht : (t, td) ∈ acc.trips) (hv : (vid, vd) ∈ acc.vehicles)
    (hlt : alookup t acc.trips = some td) (hlv : alookup vid acc.vehicles = some vd)
    (h1 : alookup t acc.tripToVeh = some vid) (h2 : alookup vid acc.vehToTrip = some t) :
    ({ data := td, vehicle := some vd } : TripOut) ∈ (finish createdAt acc).trips ∧
    ({ data := vd, trip := some td } : VehicleOut) ∈ (finish createdAt acc).vehicles := by
  unfold finish
  simp only
  constructor
  · apply List.mem_map.mpr
    refine ⟨(t, td), List.mem_mergeSort.mpr ht, ?_⟩
    simp [tripVehicle, h1, hlv]
  · apply List.mem_append_left
    apply List.mem_map.mpr
    refine ⟨(vid, vd), List.mem_mergeSort.mpr hv, ?_⟩
    simp [h2, hlt]

/-- **when the feed makes no association both references are nil** -/
theorem C04_no_assoc_no_link (acc : Acc) (t : TripID) (vid : VehicleID)
    (h1 : alookup t acc.tripToVeh = none) (h2 : ∀ p ∈ acc.noIdLinks, p.1 ≠ t) :
    tripVehicle acc t = none ∧
    (alookup vid acc.vehToTrip = none → ((alookup vid acc.vehToTrip).bind fun t => alookup t acc.trips) = none) := by
  constructor
  · unfold tripVehicle noIdLinkOf
    have : (acc.noIdLinks.filter fun p => p.1 == t) = [] := by
      rw [List.filter_eq_nil_iff]; intro p hp; simpa using h2 p hp
    simp [h1, this]
  · intro h; simp [h]

/-- **the id-less case**: the trip's vehicle reference reaches the id-less vehicle of its (last)
    link, and that vehicle's trip reference reaches the trip -/
theorem C04_idless_link (createdAt : Int) (acc : Acc) (t : TripID) (td : TripData) (i : Nat) (v : VehData)
    (ht : (t, td) ∈ acc.trips) (hlt : alookup t acc.trips = some td)
    (hno : alookup t acc.tripToVeh = none)
    (hlink : noIdLinkOf acc t = some i) (hback : tripOfNoId acc i = some t) (hv : acc.noId[i]? = some v) :
    ({ data := td, vehicle := some v } : TripOut) ∈ (finish createdAt acc).trips ∧
    ({ data := v, trip := some td } : VehicleOut) ∈ (finish createdAt acc).vehicles := by
  unfold finish
  simp only
  constructor
  · apply List.mem_map.mpr
    refine ⟨(t, td), List.mem_mergeSort.mpr ht, ?_⟩
    simp [tripVehicle, hno, hlink, hv]
  · apply List.mem_append_right
    rw [List.mem_mapIdx]
    have hi : i < acc.noId.length := by
      rcases Nat.lt_or_ge i acc.noId.length with h | h
      · exact h
      · rw [List.getElem?_eq_none h] at hv; cases hv
    refine ⟨i, hi, ?_⟩
    have : acc.noId[i] = v := by
      rw [List.getElem?_eq_getElem hi] at hv; exact Option.some.inj hv
    simp [this, hback, hlt]

/-! ## non-vacuity: a trip update with a vehicle descriptor yields a mutual link -/
example :
    let m : Msg := { entities := [{ id := [101], tripUpdate := some { trip := some { tripId := some [116] }, vehicle := some { id := some [118] } } }] }
    (parse .noExt m).trips.map (·.vehicle.map (·.id)) = [some (some ⟨[118], [], []⟩)] ∧
    (parse .noExt m).vehicles.map (·.trip.map (·.id.id)) = [some [116]] := by
  simp [parse, prepass, runEntities, entityStep, parseTripUpdate, parseTripDescriptor, parseStartTime, parseStartDate,
    parseVehicleDescriptor, addTrip, mergeTrip, mergeVehicle, finish, tripVehicle, aset, alookup, List.mergeSort, dirRT]

end Gtfs.Rt

namespace Gtfs.Rt

/-! ## the whole message: every association an entity makes is reflected by mutual references -/

/-- **an entity associates trip `t` with the identified vehicle `vid`** (a trip update carrying the
    vehicle's descriptor, or the vehicle's position carrying the trip's): in the result the trip's
    vehicle reference reaches the `Vehicles` entry of `vid`, and that vehicle's trip reference names
    `t` – whatever else the message contains, as long as its associations do not contradict each
    other. -/
theorem C04_identified_link (ext : Ext) (es : List (Entity × Bool)) (hfun : FunctionalLinks (allItems ext es))
    (it : VehData × Option TripID) (hit : it ∈ allItems ext es) (t : TripID) (vid : VehicleID)
    (ht : it.2 = some t) (hv : it.1.id = some vid) :
    tripVehicle (runEntities ext es) t = alookup vid (runEntities ext es).vehicles ∧
    ((alookup vid (runEntities ext es).vehToTrip).bind fun t' => alookup t' (runEntities ext es).trips)
      = alookup t (runEntities ext es).trips := by
  constructor
  · rw [tripVehicle_items]
    have : (allItems ext es).reverse.findSome? (linkOfTrip t) = some vid := by
      apply findSome?_of_mem_const _ _ it vid (List.mem_reverse.mpr hit) (by simp [linkOfTrip, ht, hv])
      intro a ha b hb x y
      exact hfun.1 t a (List.mem_reverse.mp ha) b (List.mem_reverse.mp hb) x y
    rw [this]
  · rw [vehToTrip_items]
    have : (allItems ext es).reverse.findSome? (linkOfVeh vid) = some t := by
      apply findSome?_of_mem_const _ _ it t (List.mem_reverse.mpr hit) (by simp [linkOfVeh, ht, hv])
      intro a ha b hb x y
      exact hfun.2.2 vid a (List.mem_reverse.mp ha) b (List.mem_reverse.mp hb) x y
    rw [this]; rfl

/-- **an entity associates trip `t` with an id-less vehicle** (a vehicle position without a vehicle
    descriptor, carrying the trip's descriptor), and no entity associates `t` with an identified
    vehicle: the trip's vehicle reference reaches exactly that vehicle's data. -/
theorem C04_idless_trip_side (ext : Ext) (es : List (Entity × Bool)) (hfun : FunctionalLinks (allItems ext es))
    (it : VehData × Option TripID) (hit : it ∈ allItems ext es) (t : TripID)
    (ht : it.2 = some t) (hv : it.1.id = none)
    (hno : ∀ a ∈ allItems ext es, linkOfTrip t a = none) :
    tripVehicle (runEntities ext es) t = some it.1 := by
  rw [tripVehicle_items]
  have h0 : (allItems ext es).reverse.findSome? (linkOfTrip t) = none := by
    rw [List.findSome?_eq_none_iff]; intro a ha; exact hno a (List.mem_reverse.mp ha)
  rw [h0]
  simp only
  have hmem : it ∈ (idless (allItems ext es)).filter fun x => x.2 == some t := by
    refine List.mem_filter.mpr ⟨List.mem_filter.mpr ⟨hit, by simp [hv]⟩, by simp [ht]⟩
  rw [eq_singleton_of_mem_of_length_le_one _ it hmem (hfun.2.1 t)]
  rfl

/-- **the id-less vehicles of the result**: one per id-less vehicle position, in feed order, each
    referring to the `Trips` entry of the trip its own entity names (nil when it names none) -/
theorem C04_idless_vehicle_side (ext : Ext) (m : Msg) :
    ∃ withId : List VehicleOut,
      (parse ext m).vehicles = withId ++
        (idless (allItems ext (prepass ext m))).map fun it =>
          ({ data := it.1, trip := it.2.bind fun t => alookup t (runEntities ext (prepass ext m)).trips } : VehicleOut) := by
  unfold parse finish
  simp only
  exact ⟨_, by rw [noId_out_items]⟩

/-- **no association, no reference** (trip side): a trip no entity associates with a vehicle has a
    nil vehicle reference -/
theorem C04_unassociated_trip (ext : Ext) (es : List (Entity × Bool)) (t : TripID)
    (h : ∀ it ∈ allItems ext es, it.2 ≠ some t) : tripVehicle (runEntities ext es) t = none := by
  rw [tripVehicle_items]
  have h0 : (allItems ext es).reverse.findSome? (linkOfTrip t) = none := by
    rw [List.findSome?_eq_none_iff]; intro a ha
    simp [linkOfTrip, h a (List.mem_reverse.mp ha)]
  rw [h0]
  simp only
  have : ((idless (allItems ext es)).filter fun x => x.2 == some t) = [] := by
    rw [List.filter_eq_nil_iff]; intro a ha
    have := h a (List.mem_filter.mp ha).1
    simpa using this
  rw [this]; rfl

/-- **no association, no reference** (vehicle side): an identified vehicle no entity associates
    with a trip has a nil trip reference -/
theorem C04_unassociated_vehicle (ext : Ext) (es : List (Entity × Bool)) (vid : VehicleID)
    (h : ∀ it ∈ allItems ext es, it.1.id = some vid → it.2 = none) :
    ((alookup vid (runEntities ext es).vehToTrip).bind fun t' => alookup t' (runEntities ext es).trips) = none := by
  rw [vehToTrip_items]
  have h0 : (allItems ext es).reverse.findSome? (linkOfVeh vid) = none := by
    rw [List.findSome?_eq_none_iff]; intro a ha
    unfold linkOfVeh
    split
    · next hid => exact h a (List.mem_reverse.mp ha) hid
    · rfl
  rw [h0]; rfl

end Gtfs.Rt
