import GtfsVerif.Lemmas.Realtime
/-! # C04 — trips and vehicles associated in a feed point at each other

Model: the association tables `tripToVeh` / `vehToTrip` / `noIdLinks` filled by `entityStep` and
the link resolution of `finish` (Model/Realtime.lean). In the model a pointer is observed through
the *data* it reaches (`TripOut.vehicle`, `VehicleOut.trip`); that the Go pointers really are
mutual (`t.Vehicle.Trip.Vehicle == t.Vehicle`) is the oracle's pointer walk on the implementation. -/
namespace Gtfs.Rt

/-- **one entity that associates a trip with a vehicle carrying an id records the association
    both ways** (whether the entity is a trip update with a vehicle descriptor or a vehicle position
    with a trip descriptor) -/
theorem C04_assoc_both_ways_trip_update (ext : Ext) (acc : Acc) (e : Entity) (tu : TripUpdateMsg)
    (t : TripData) (v : VehData) (vid : VehicleID)
    (he : e.tripUpdate = some tu) (hp : parseTripUpdate ext tu = some (t, some v)) (hv : v.id = some vid) :
    alookup t.id (entityStep ext acc e).tripToVeh = some vid ∧
    alookup vid (entityStep ext acc e).vehToTrip = some t.id := by
  unfold entityStep
  simp [he, hp, hv, alookup_aset_same]

theorem C04_assoc_both_ways_vehicle_position (ext : Ext) (acc : Acc) (e : Entity) (vp : VehiclePosMsg)
    (t : TripData) (vid : VehicleID)
    (he : e.tripUpdate = none) (hvp : e.vehicle = some vp) (ht : (parseVehicle vp).1 = some t)
    (hv : (parseVehicle vp).2.id = some vid) :
    alookup t.id (entityStep ext acc e).tripToVeh = some vid ∧
    alookup vid (entityStep ext acc e).vehToTrip = some t.id := by
  unfold entityStep
  simp [he, hvp, ht, hv, alookup_aset_same]

/-- an id-less vehicle associated with a trip is remembered as a link to exactly that vehicle
    (its position in the list of id-less vehicles) -/
theorem C04_assoc_idless (ext : Ext) (acc : Acc) (e : Entity) (vp : VehiclePosMsg) (t : TripData)
    (he : e.tripUpdate = none) (hvp : e.vehicle = some vp) (ht : (parseVehicle vp).1 = some t)
    (hv : (parseVehicle vp).2.id = none) :
    (entityStep ext acc e).noIdLinks = acc.noIdLinks ++ [(t.id, acc.noId.length)] ∧
    (entityStep ext acc e).noId = acc.noId ++ [(parseVehicle vp).2] := by
  unfold entityStep
  simp [he, hvp, ht, hv, addTrip]

/-- **links are mutual and lead to the list entries' content.** If the tables associate trip `t`
    with vehicle `vid` both ways, then in the result the Trips entry of `t` has a vehicle reference
    whose content is the Vehicles entry of `vid`, and that Vehicles entry has a trip reference
    whose content is the Trips entry of `t`. -/
theorem C04_links_mutual (createdAt : Int) (acc : Acc) (t : TripID) (td : TripData) (vid : VehicleID) (vd : VehData)
    (ht : (t, td) ∈ acc.trips) (hv : (vid, vd) ∈ acc.vehicles)
    (hlt : alookup t acc.trips = some td) (hlv : alookup vid acc.vehicles = some vd)
    (h1 : alookup t acc.tripToVeh = some vid) (h2 : alookup vid acc.vehToTrip = some t) :
    ({ data := td, vehicle := some vd } : TripOut) ∈ (finish createdAt acc).trips ∧
    ({ data := vd, trip := some td } : VehicleOut) ∈ (finish createdAt acc).vehicles := by
  unfold finish
  simp only
  constructor
  · apply List.mem_map.mpr
    refine ⟨(t, td), List.mem_mergeSort.mpr ht, ?_⟩
    simp [tripVehicle, h1, hlv]
  · apply List.mem_append_left
    apply List.mem_map.mpr
    refine ⟨(vid, vd), List.mem_mergeSort.mpr hv, ?_⟩
    simp [h2, hlt]

/-- **when the feed makes no association both references are nil** -/
theorem C04_no_assoc_no_link (acc : Acc) (t : TripID) (vid : VehicleID)
    (h1 : alookup t acc.tripToVeh = none) (h2 : ∀ p ∈ acc.noIdLinks, p.1 ≠ t) :
    tripVehicle acc t = none ∧
    (alookup vid acc.vehToTrip = none → ((alookup vid acc.vehToTrip).bind fun t => alookup t acc.trips) = none) := by
  constructor
  · unfold tripVehicle noIdLinkOf
    have : (acc.noIdLinks.filter fun p => p.1 == t) = [] := by
      rw [List.filter_eq_nil_iff]; intro p hp; simpa using h2 p hp
    simp [h1, this]
  · intro h; simp [h]

/-- **the id-less case**: the trip's vehicle reference reaches the id-less vehicle of its (last)
    link, and that vehicle's trip reference reaches the trip -/
theorem C04_idless_link (createdAt : Int) (acc : Acc) (t : TripID) (td : TripData) (i : Nat) (v : VehData)
    (ht : (t, td) ∈ acc.trips) (hlt : alookup t acc.trips = some td)
    (hno : alookup t acc.tripToVeh = none)
    (hlink : noIdLinkOf acc t = some i) (hback : tripOfNoId acc i = some t) (hv : acc.noId[i]? = some v) :
    ({ data := td, vehicle := some v } : TripOut) ∈ (finish createdAt acc).trips ∧
    ({ data := v, trip := some td } : VehicleOut) ∈ (finish createdAt acc).vehicles := by
  unfold finish
  simp only
  constructor
  · apply List.mem_map.mpr
    refine ⟨(t, td), List.mem_mergeSort.mpr ht, ?_⟩
    simp [tripVehicle, hno, hlink, hv]
  · apply List.mem_append_right
    rw [List.mem_mapIdx]
    have hi : i < acc.noId.length := by
      rcases Nat.lt_or_ge i acc.noId.length with h | h
      · exact h
      · rw [List.getElem?_eq_none h] at hv; cases hv
    refine ⟨i, hi, ?_⟩
    have : acc.noId[i] = v := by
      rw [List.getElem?_eq_getElem hi] at hv; exact Option.some.inj hv
    simp [this, hback, hlt]

/-! ## non-vacuity: a trip update with a vehicle descriptor yields a mutual link -/
example :
    let m : Msg := { entities := [{ id := [101], tripUpdate := some { trip := some { tripId := some [116] }, vehicle := some { id := some [118] } } }] }
    (parse .noExt m).trips.map (·.vehicle.map (·.id)) = [some (some ⟨[118], [], []⟩)] ∧
    (parse .noExt m).vehicles.map (·.trip.map (·.id.id)) = [some [116]] := by
  simp [parse, prepass, runEntities, entityStep, parseTripUpdate, parseTripDescriptor, parseStartTime, parseStartDate,
    parseVehicleDescriptor, addTrip, mergeTrip, mergeVehicle, finish, tripVehicle, aset, alookup, List.mergeSort, dirRT]

end Gtfs.Rt
