import GtfsVerif.Model.Interleave
import GtfsVerif.Model.Realtime
import GtfsVerif.Model.Static
import GtfsVerif.Gen.Inventory
/-! # C18 — concurrent parsing is race-free and equals sequential parsing  (partial)

The race itself is a runtime fact (Go memory model, library internals): it is observed by
`harness race`, built with `-race` (16 goroutines, shared input buffers, ONE options/extension value
per configuration), not proved. What Lean carries:

* the generic fact that processes which write no shared location cannot conflict, whatever the
  interleaving (`C18_read_only_no_conflict`);
* that the parsers write no shared location is tied to the source by the regenerated inventory:
  no assignment reaches a package-level variable, and in the entry points / extension methods the
  only assignments through a parameter or receiver are the allowed ones below (the decoded message
  of the call itself; the per-message extension instance; the local copy of the options);
* the models are functions of (bytes, options) only, so each call returns what it would have
  returned alone. -/
namespace Gtfs
open Interleave

theorem mem_interleavings_readOnly (xs ys : List Step) (hx : readOnly xs) (hy : readOnly ys) :
    ∀ tr ∈ interleavings xs ys, ∀ a ∈ tr, a.2.writes = [] := by
  induction xs generalizing ys with
  | nil =>
    intro tr htr a ha
    cases ys <;> simp only [interleavings, List.mem_singleton] at htr <;> subst htr
    · simp at ha
    · obtain ⟨s, hs, rfl⟩ := List.mem_map.mp ha; exact hy s hs
  | cons x xs ihx =>
    induction ys with
    | nil =>
      intro tr htr a ha
      simp only [interleavings, List.mem_singleton] at htr; subst htr
      obtain ⟨s, hs, rfl⟩ := List.mem_map.mp ha; exact hx s hs
    | cons y ys ihy =>
      intro tr htr a ha
      simp only [interleavings, List.mem_append, List.mem_map] at htr
      rcases htr with ⟨t, ht, rfl⟩ | ⟨t, ht, rfl⟩
      · rcases List.mem_cons.mp ha with rfl | ha
        · exact hx x (by simp)
        · exact ihx (y :: ys) (fun s hs => hx s (by simp [hs])) hy t ht a ha
      · rcases List.mem_cons.mp ha with rfl | ha
        · exact hy y (by simp)
        · exact ihy (fun s hs => hy s (by simp [hs])) t ht a ha

/-- **processes that write no shared location never conflict, in any interleaving** -/
theorem C18_read_only_no_conflict (xs ys : List Step) (hx : readOnly xs) (hy : readOnly ys) :
    ∀ tr ∈ interleavings xs ys, ∀ a ∈ tr, ∀ b ∈ tr, conflict a b = false := by
  intro tr htr a ha b hb
  have wa := mem_interleavings_readOnly xs ys hx hy tr htr a ha
  have wb := mem_interleavings_readOnly xs ys hx hy tr htr b hb
  simp [conflict, wa, wb]

/-- the assignments through a parameter or receiver that the entry points and extension methods
    may make: to the decoded message of this very call (`alert`, `ID` point into the FeedMessage
    unmarshalled inside ParseRealtime), to the extension's deduplication table (`e`), which is a
    fresh per-message instance (`parseRealtimeUsesForMessage`), and to `opts`, which at that point
    is the local copy (`parseRealtimeWritesOnlyToCopy`). Keyed by package, the type written through (pointer or not) and the
    path, not by function or parameter name: moving an assignment into a helper of the same package is no change. -/
def allowedSharedWrites : List String := [
  "extensions/nyctalerts: proto.Alert: .Cause",
  "extensions/nyctalerts: proto.Alert: .DescriptionText",
  "extensions/nyctalerts: proto.Alert: .Effect",
  "extensions/nyctalerts: string: *",
  "extensions/nyctalerts: nyctalerts.extension: .elevatorAlerts[]",
  "gtfs: gtfs.ParseRealtimeOptions: .Extension"]

/-- **no parse call writes state shared with another call**: no package-level variable is ever
    assigned, the writes through parameters are the allowed ones, the options are copied first and
    stateful extensions are instantiated per message -/
theorem C18_no_shared_writes :
    Gen.Inventory.globalWrites = [] ∧
    Gen.Inventory.sharedWriteKinds.all (fun w => allowedSharedWrites.contains w) = true ∧
    Gen.Inventory.parseRealtimeWritesOnlyToCopy = true ∧ Gen.Inventory.parseRealtimeUsesForMessage = true := by decide

/-- each call returns what it would have returned running alone: the result is a function of the
    call's own arguments (there is no other input the model could depend on) -/
theorem C18_result_is_function_of_arguments (ext : Rt.Ext) (m : Rt.Msg) (env : Static.Env) (ms : List (Str × Str)) :
    (∀ ext' m', ext' = ext → m' = m → Rt.parse ext' m' = Rt.parse ext m) ∧
    (∀ ms', ms' = ms → Static.parse env ms' = Static.parse env ms) := by
  refine ⟨?_, ?_⟩
  · intro ext' m' h1 h2; rw [h1, h2]
  · intro ms' h; rw [h]

/-! ## non-vacuity: two read-only processes -/
example : readOnly [⟨[1, 2], []⟩, ⟨[2], []⟩] := by
  intro s hs; simp at hs; rcases hs with rfl | rfl <;> rfl

end Gtfs
