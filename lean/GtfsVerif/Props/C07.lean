import GtfsVerif.Lemmas.RealtimeLinks
/-! # C07 — realtime entities merge order-independently into unique, sorted trips / vehicles

Model: `Gtfs.Rt.parse` (Model/Realtime.lean): the extension pre-pass, the merge loop
`runEntities` over the entities (`entityStep`: mergeTrip / mergeVehicle / association tables) and
`finish` (link resolution, the sort by `TripID.Less`, the vehicle sort). -/
namespace Gtfs.Rt

/-! ## `TripID.Less` is a strict total order on the identifiers the parser produces -/

/-- `TripID.Less` is irreflexive and transitive on all identifiers, and trichotomous on
    well-formed ones (start time/date zero unless flagged – what `parseTripDescriptor` yields) -/
theorem C07_tripLess_strict_total :
    (∀ a, tripLess a a = false) ∧
    (∀ a b c, tripLess a b = true → tripLess b c = true → tripLess a c = true) ∧
    (∀ a b, WFId a → WFId b → tripLess a b = true ∨ a = b ∨ tripLess b a = true) := by
  refine ⟨?_, ?_, ?_⟩
  · intro a; rw [tripLess_eq_key]; exact sto_keyLt.irrefl _
  · intro a b c; simp only [tripLess_eq_key]; exact sto_keyLt.trans _ _ _
  · intro a b ha hb
    simp only [tripLess_eq_key]
    rcases sto_keyLt.tri (tripKey a) (tripKey b) with h | h | h
    · exact Or.inl h
    · exact Or.inr (Or.inl (tripKey_injective a b ha hb h))
    · exact Or.inr (Or.inr h)

theorem tripLe_trans (a b c : TripID × TripData) :
    (!tripLess b.1 a.1) = true → (!tripLess c.1 b.1) = true → (!tripLess c.1 a.1) = true := by
  simp only [tripLess_eq_key]
  exact sto_keyLt.le_trans_key (fun p : TripID × TripData => tripKey p.1) a b c

theorem tripLe_total (a b : TripID × TripData) : ((!tripLess b.1 a.1) || (!tripLess a.1 b.1)) = true := by
  simp only [tripLess_eq_key]
  exact sto_keyLt.le_total_key (fun p : TripID × TripData => tripKey p.1) a b

/-- **C07 (for every message): Trips is strictly increasing in the trip identifier** – hence
    sorted and free of duplicates. No hypothesis on the message or the extension. -/
theorem C07_trips_sorted_unique (ext : Ext) (m : Msg) :
    ((parse ext m).trips.map (·.data.id)).Pairwise (fun a b => tripLess a b = true) := by
  unfold parse finish
  simp only [List.map_map]
  generalize hacc : runEntities ext (prepass ext m) = acc
  have hinv : Inv acc := by rw [← hacc]; exact runEntities_inv ext _
  obtain ⟨⟨hnd, hid⟩, _⟩ := hinv
  have hperm := List.mergeSort_perm acc.trips (fun a b => !tripLess b.1 a.1)
  have hsorted := List.pairwise_mergeSort (le := fun (a b : TripID × TripData) => !tripLess b.1 a.1) tripLe_trans tripLe_total acc.trips
  have hnd' : (akeys (acc.trips.mergeSort fun a b => !tripLess b.1 a.1)).Nodup :=
    (List.Perm.nodup_iff (hperm.map _)).mpr hnd
  have hmem : ∀ p ∈ acc.trips.mergeSort (fun a b => !tripLess b.1 a.1), p.2.id = p.1 ∧ WFId p.1 :=
    fun p hp => hid p (hperm.subset hp)
  rw [List.pairwise_map]
  have hne : (acc.trips.mergeSort fun a b => !tripLess b.1 a.1).Pairwise (fun a b => a.1 ≠ b.1) := by
    simpa [akeys, List.Nodup, List.pairwise_map] using hnd'
  have hboth := hsorted.and hne
  refine List.Pairwise.imp_of_mem ?_ hboth
  intro a b ha hb ⟨hle, hn⟩
  simp only [Function.comp]
  rw [(hmem a ha).1, (hmem b hb).1]
  rcases C07_tripLess_strict_total.2.2 a.1 b.1 (hmem a ha).2 (hmem b hb).2 with h | h | h
  · exact h
  · exact absurd h hn
  · simp [h] at hle

/-- **C07 (for every message): Vehicles never holds two entries with the same vehicle identifier**
    (id, label, licence plate); entries without an identifier are the id-less vehicle positions. -/
theorem C07_vehicles_unique_ids (ext : Ext) (m : Msg) :
    ((parse ext m).vehicles.filterMap (·.data.id)).Nodup := by
  unfold parse finish
  simp only
  generalize hacc : runEntities ext (prepass ext m) = acc
  have hinv : Inv acc := by rw [← hacc]; exact runEntities_inv ext _
  obtain ⟨_, hnd, hid, hno⟩ := hinv
  rw [List.filterMap_append]
  have hperm := List.mergeSort_perm acc.vehicles (fun a b => !vehLess b.1 a.1)
  have h2 : (acc.noId.mapIdx fun i v => ({ data := v, trip := (tripOfNoId acc i).bind fun t => alookup t acc.trips } : VehicleOut)).filterMap (·.data.id) = [] := by
    rw [List.filterMap_eq_nil_iff]
    intro x hx
    simp only [List.mem_mapIdx] at hx
    obtain ⟨i, hi, rfl⟩ := hx
    exact hno _ (List.getElem_mem hi)
  rw [h2, List.append_nil]
  have h1 : ((acc.vehicles.mergeSort fun a b => !vehLess b.1 a.1).map fun p =>
      ({ data := p.2, trip := (alookup p.1 acc.vehToTrip).bind fun t => alookup t acc.trips } : VehicleOut)).filterMap (·.data.id)
      = akeys (acc.vehicles.mergeSort fun a b => !vehLess b.1 a.1) := by
    have : ∀ l : List (VehicleID × VehData), (∀ p ∈ l, p.2.id = some p.1) →
        (l.map fun p => ({ data := p.2, trip := (alookup p.1 acc.vehToTrip).bind fun t => alookup t acc.trips } : VehicleOut)).filterMap (·.data.id)
          = akeys l := by
      intro l
      induction l with
      | nil => intro _; rfl
      | cons q r ih =>
        intro hl
        simp only [List.map_cons, List.filterMap_cons, hl q (by simp), akeys]
        rw [ih (fun p hp => hl p (by simp [hp]))]; rfl
    exact this _ (fun p hp => hid p (hperm.subset hp))
  rw [h1]
  exact (List.Perm.nodup_iff (hperm.map _)).mpr hnd

/-! ## own entity wins: the merge step -/

/-- **own entity wins (one step)**: merging an entity of the trip's own replaces everything;
    merging a mere reference keeps the data already there and only (re)sets the identifier -/
theorem C07_mergeTrip_spec (cur : Option TripData) (new : TripData) :
    (new.inMessage = true → mergeTrip cur new = new) ∧
    (new.inMessage = false → mergeTrip cur new = { (cur.getD {}) with id := new.id }) := by
  unfold mergeTrip; constructor <;> intro h <;> simp [h]

theorem C07_mergeVehicle_spec (cur : Option VehData) (new : VehData) :
    (new.inMessage = true → mergeVehicle cur new = new) ∧
    (new.inMessage = false → mergeVehicle cur new = { (cur.getD {}) with id := new.id }) := by
  unfold mergeVehicle; constructor <;> intro h <;> simp [h]

/-- **own entity wins (whole mention list), wherever the own entity stands**: after merging any list of
    mentions of one trip id that contains exactly one own entity `own` (the conflict-free case), the
    table holds the data of `own` – references before it are overwritten, references after it keep it. -/
theorem C07_own_entity_wins (k : TripID) (before after : List TripData) (own : TripData)
    (hown : own.inMessage = true ∧ own.id = k)
    (hb : ∀ t ∈ before, t.inMessage = false ∧ t.id = k) (ha : ∀ t ∈ after, t.inMessage = false ∧ t.id = k)
    (acc : Acc) :
    alookup k ((before ++ own :: after).foldl addTrip acc).trips = some own := by
  have hrefs : ∀ (l : List TripData) (a : Acc), (∀ t ∈ l, t.inMessage = false ∧ t.id = k) →
      alookup k a.trips = some own → alookup k (l.foldl addTrip a).trips = some own := by
    intro l
    induction l with
    | nil => intro a _ h; simpa using h
    | cons t r ih =>
      intro a hl h
      simp only [List.foldl_cons]
      apply ih _ (fun x hx => hl x (by simp [hx]))
      obtain ⟨h1, h2⟩ := hl t (by simp)
      simp only [addTrip, h2, alookup_aset_same, h, mergeTrip, h1, Bool.false_eq_true, if_false, Option.getD_some]
      congr 1
      cases own; simp_all
  rw [List.foldl_append, List.foldl_cons]
  apply hrefs after _ ha
  simp [addTrip, hown.2, alookup_aset_same, mergeTrip, hown.1]

/-! ## order independence (partial): the trip table does not depend on the order of the
    mentions of different trips -/

theorem addTrip_lookup (acc : Acc) (t : TripData) (k : TripID) :
    alookup k (addTrip acc t).trips = if t.id = k then some (mergeTrip (alookup k acc.trips) t) else alookup k acc.trips := by
  unfold addTrip
  by_cases h : t.id = k
  · subst h; simp [alookup_aset_same]
  · simp only [h, if_false]; exact alookup_aset_other _ _ _ _ h

/-- mentions of different trips commute (as far as any lookup can tell) -/
theorem C07_addTrip_commute (acc : Acc) (s t : TripData) (h : s.id ≠ t.id) (k : TripID) :
    alookup k (addTrip (addTrip acc s) t).trips = alookup k (addTrip (addTrip acc t) s).trips := by
  simp only [addTrip_lookup]
  by_cases h1 : t.id = k <;> by_cases h2 : s.id = k <;> simp_all

/-! The full statement of order independence (every permutation of a conflict-free message's
    entities yields the same trips, vehicles and links; alerts keep feed order) is not yet one
    theorem. Proved so far: sortedness/uniqueness for all messages, own-entity-wins for any position
    of the own entity, commutation of mentions of different trips. The composition is carried by
    the correspondence (every case is parsed in 6 entity orders by the model and by the
    implementation) and listed as `partial` in the evidence. -/

end Gtfs.Rt

namespace Gtfs.Rt

/-! ## order independence of the trips (conflict-free messages) -/

/-- **any permutation of a conflict-free message's entities yields the same trip table**: the
    same identifiers, each with the same data (its own entity's data wherever that entity stands) -/
theorem C07_trip_table_perm_invariant (ext : Ext) (es es' : List (Entity × Bool)) (hp : es'.Perm es)
    (hcf : ConflictFreeTrips ext es) (k : TripID) :
    alookup k (runEntities ext es').trips = alookup k (runEntities ext es).trips := by
  rw [runEntities_trips, runEntities_trips, foldl_addTrip_lookup, foldl_addTrip_lookup]
  have hperm : (allMentions ext es').Perm (allMentions ext es) := (hp.filter _).flatMap_right _
  have : alookup k ({} : Acc).trips = none := rfl
  rw [this]
  apply mergeAll_perm k
  · exact hperm.filter _
  · intro m hm; simpa using (List.mem_filter.mp hm).2
  · exact hcf k

/-- **…and hence the same Trips list** (identifiers and data, in the same sorted order) -/
theorem C07_trips_perm_invariant (ext : Ext) (es es' : List (Entity × Bool)) (hp : es'.Perm es)
    (hcf : ConflictFreeTrips ext es) :
    ((runEntities ext es').trips.mergeSort fun a b => !tripLess b.1 a.1)
      = ((runEntities ext es).trips.mergeSort fun a b => !tripLess b.1 a.1) := by
  have inv := (runEntities_inv ext es).1
  have inv' := (runEntities_inv ext es').1
  have hperm : (runEntities ext es').trips.Perm (runEntities ext es).trips :=
    perm_of_lookup_eq _ _ inv'.1 inv.1 (C07_trip_table_perm_invariant ext es es' hp hcf)
  let le := fun (a b : TripID × TripData) => !tripLess b.1 a.1
  have h1 := List.pairwise_mergeSort (le := le) tripLe_trans tripLe_total (runEntities ext es').trips
  have h2 := List.pairwise_mergeSort (le := le) tripLe_trans tripLe_total (runEntities ext es).trips
  have hsp : ((runEntities ext es').trips.mergeSort le).Perm ((runEntities ext es).trips.mergeSort le) :=
    (List.mergeSort_perm _ le).trans (hperm.trans (List.mergeSort_perm _ le).symm)
  refine List.Perm.eq_of_pairwise (le := fun a b => le a b = true) ?_ h1 h2 hsp
  intro a b ha hb hab hba
  -- both are entries of the table of `es`; neither key is below the other, so the keys are equal
  have ha' : a ∈ (runEntities ext es).trips := (List.mergeSort_perm _ le).subset (hsp.subset ha)
  have hb' : b ∈ (runEntities ext es).trips := (List.mergeSort_perm _ le).subset hb
  have hkeys : a.1 = b.1 := by
    rcases C07_tripLess_strict_total.2.2 a.1 b.1 (inv.2 a ha').2 (inv.2 b hb').2 with h | h | h
    · simp [le, h] at hba
    · exact h
    · simp [le, h] at hab
  obtain ⟨ka, va⟩ := a
  obtain ⟨kb, vb⟩ := b
  simp only at hkeys
  subst hkeys
  have e1 := (mem_iff_alookup' _ inv.1 ka va).mp ha'
  have e2 := (mem_iff_alookup' _ inv.1 ka vb).mp hb'
  rw [e1] at e2
  cases e2; rfl

end Gtfs.Rt

namespace Gtfs.Rt

/-- the pre-pass of "no extension" and of the NYCT trips extension treats each entity on its own, so
    a permutation of the entities is a permutation of the pre-processed entities (the NYCT alerts
    extension groups elevator alerts by first occurrence: alerts keep their relative feed order and
    are not part of this statement) -/
theorem prepass_perm (ext : Ext) (m m' : Msg) (hp : m'.entities.Perm m.entities) (ht : m'.timestamp = m.timestamp)
    (hext : ∀ o, ext ≠ .alerts o) : (prepass ext m').Perm (prepass ext m) := by
  unfold prepass
  cases ext with
  | noExt => exact hp.map _
  | trips o => simp only [ht]; exact hp.map _
  | alerts o => exact absurd rfl (hext o)

/-- **C07 (order independence of Trips).** For a message without conflicting duplicates, any
    permutation of its entities yields the same Trips: the same identifiers in the same (sorted)
    order, each with the same data. -/
theorem C07_parse_trips_perm_invariant (ext : Ext) (m m' : Msg) (hp : m'.entities.Perm m.entities)
    (ht : m'.timestamp = m.timestamp) (hext : ∀ o, ext ≠ .alerts o)
    (hcf : ConflictFreeTrips ext (prepass ext m)) :
    (parse ext m').trips.map (·.data) = (parse ext m).trips.map (·.data) := by
  unfold parse finish
  simp only [List.map_map]
  have := C07_trips_perm_invariant ext (prepass ext m) (prepass ext m') (prepass_perm ext m m' hp ht hext) hcf
  have hcomp : ∀ acc : Acc, ((fun (t : TripOut) => t.data) ∘ fun (p : TripID × TripData) => ({ data := p.2, vehicle := tripVehicle acc p.1 } : TripOut))
      = fun p => p.2 := by intro acc; rfl
  rw [hcomp, hcomp, this]

end Gtfs.Rt

namespace Gtfs.Rt

/-! ## order independence of the vehicles (conflict-free messages) -/

/-- the vehicle order is a strict total order on vehicle identifiers -/
theorem C07_vehLess_strict_total :
    (∀ a, vehLess a a = false) ∧
    (∀ a b c, vehLess a b = true → vehLess b c = true → vehLess a c = true) ∧
    (∀ a b, vehLess a b = true ∨ a = b ∨ vehLess b a = true) := by
  refine ⟨?_, ?_, ?_⟩
  · intro a; rw [vehLess_eq_key]; exact sto_vehKeyLt.irrefl _
  · intro a b c; simp only [vehLess_eq_key]; exact sto_vehKeyLt.trans _ _ _
  · intro a b
    simp only [vehLess_eq_key]
    rcases sto_vehKeyLt.tri (vehKey a) (vehKey b) with h | h | h
    · exact Or.inl h
    · exact Or.inr (Or.inl (vehKey_injective a b h))
    · exact Or.inr (Or.inr h)

/-- any permutation of a conflict-free message's entities yields the same table of identified vehicles -/
theorem C07_vehicle_table_perm_invariant (ext : Ext) (es es' : List (Entity × Bool)) (hp : es'.Perm es)
    (hcf : ConflictFreeVehicles ext es) (k : VehicleID) :
    alookup k (runEntities ext es').vehicles = alookup k (runEntities ext es).vehicles := by
  rw [vehicles_lookup, vehicles_lookup]
  have hperm : (allVehMentions ext es').Perm (allVehMentions ext es) := (hp.filter _).flatMap_right _
  apply mergeAllV_perm k
  · exact hperm.filter _
  · intro m hm; simpa using (List.mem_filter.mp hm).2
  · exact hcf k

/-- **C07 (order independence of Vehicles).** For a message without conflicting duplicates, any
    permutation of its entities yields the same identified vehicles – the same identifiers in the same
    (sorted) order, each with the same data – followed by the same id-less vehicles (which have no
    identifier to sort by and keep feed order: the same multiset). -/
theorem C07_parse_vehicles_perm_invariant (ext : Ext) (m m' : Msg) (hp : m'.entities.Perm m.entities)
    (ht : m'.timestamp = m.timestamp) (hext : ∀ o, ext ≠ .alerts o)
    (hcf : ConflictFreeVehicles ext (prepass ext m)) :
    ∃ withId noId noId' : List VehData,
      (parse ext m).vehicles.map (·.data) = withId ++ noId ∧
      (parse ext m').vehicles.map (·.data) = withId ++ noId' ∧
      noId'.Perm noId ∧ (∀ v ∈ withId, v.id.isSome) ∧ (∀ v ∈ noId, v.id = none) := by
  have hpp := prepass_perm ext m m' hp ht hext
  let le := fun (a b : VehicleID × VehData) => !vehLess b.1 a.1
  have data_eq : ∀ (mm : Msg),
      (parse ext mm).vehicles.map (·.data)
        = ((runEntities ext (prepass ext mm)).vehicles.mergeSort le).map (·.2) ++ (runEntities ext (prepass ext mm)).noId := by
    intro mm
    unfold parse finish
    simp only
    rw [List.map_append, List.map_map]
    congr 1
    apply List.ext_getElem?
    intro i
    simp only [List.getElem?_map, List.getElem?_mapIdx, Option.map_map]
    cases (runEntities ext (prepass ext mm)).noId[i]? <;> rfl
  obtain ⟨_, hnd, hid, hno⟩ := runEntities_inv ext (prepass ext m)
  obtain ⟨_, hnd', _, _⟩ := runEntities_inv ext (prepass ext m')
  have hle : le = fun (a b : VehicleID × VehData) => !vehKeyLt (vehKey b.1) (vehKey a.1) := by
    funext a b; simp only [le, vehLess_eq_key]
  have hsorted : (runEntities ext (prepass ext m')).vehicles.mergeSort le = (runEntities ext (prepass ext m)).vehicles.mergeSort le := by
    rw [hle]
    exact sorted_eq_of_lookup_eq vehKeyLt sto_vehKeyLt vehKey vehKey_injective _ _ hnd' hnd
      (C07_vehicle_table_perm_invariant ext _ _ hpp hcf)
  refine ⟨((runEntities ext (prepass ext m)).vehicles.mergeSort le).map (·.2), (runEntities ext (prepass ext m)).noId,
    (runEntities ext (prepass ext m')).noId, data_eq m, ?_, ?_, ?_, hno⟩
  · rw [data_eq m', hsorted]
  · rw [noId_eq, noId_eq]
    exact ((hpp.filter _).flatMap_right _).filter _
  · intro v hv
    obtain ⟨p, hp', rfl⟩ := List.mem_map.mp hv
    rw [hid p ((List.mergeSort_perm _ le).subset hp')]; rfl

end Gtfs.Rt

namespace Gtfs.Rt

/-! ## order independence of the links (conflict-free messages) -/

theorem tripVehicle_perm_invariant (ext : Ext) (es es' : List (Entity × Bool)) (hp : es'.Perm es)
    (hcfV : ConflictFreeVehicles ext es) (hfun : FunctionalLinks (allItems ext es)) (t : TripID) :
    tripVehicle (runEntities ext es') t = tripVehicle (runEntities ext es) t := by
  rw [tripVehicle_items, tripVehicle_items]
  have hit := allItems_perm ext es es' hp
  have hrev : (allItems ext es').reverse.Perm (allItems ext es).reverse :=
    (List.reverse_perm _).trans (hit.trans (List.reverse_perm _).symm)
  have hfs : (allItems ext es').reverse.findSome? (linkOfTrip t) = (allItems ext es).reverse.findSome? (linkOfTrip t) := by
    apply findSome?_perm_of_const _ _ _ hrev
    intro a ha b hb x y
    exact hfun.1 t a (List.mem_reverse.mp ha) b (List.mem_reverse.mp hb) x y
  rw [hfs]
  cases (allItems ext es).reverse.findSome? (linkOfTrip t) with
  | some vid => exact C07_vehicle_table_perm_invariant ext es es' hp hcfV vid
  | none =>
    simp only
    have : ((idless (allItems ext es')).filter fun it => it.2 == some t) = ((idless (allItems ext es)).filter fun it => it.2 == some t) := by
      apply perm_eq_of_length_le_one _ _ _ (hfun.2.1 t)
      exact ((hit.filter _).filter _)
    rw [this]

/-- **C07 (order independence of Trips, Vehicles and the links between them).** For a message
    without conflicting duplicates or associations, any permutation of its entities yields the same
    `Trips` – identifiers, order, data and the vehicle each trip refers to – and the same `Vehicles`:
    the identified ones identical (order, data and the trip each refers to), the id-less ones the
    same multiset, each with the trip of its own entity. -/
theorem C07_parse_perm_invariant (ext : Ext) (m m' : Msg) (hp : m'.entities.Perm m.entities)
    (ht : m'.timestamp = m.timestamp) (hext : ∀ o, ext ≠ .alerts o)
    (hcfT : ConflictFreeTrips ext (prepass ext m)) (hcfV : ConflictFreeVehicles ext (prepass ext m))
    (hfun : FunctionalLinks (allItems ext (prepass ext m))) :
    (parse ext m').trips = (parse ext m).trips ∧
    ∃ withId noId noId' : List VehicleOut,
      (parse ext m).vehicles = withId ++ noId ∧ (parse ext m').vehicles = withId ++ noId' ∧ noId'.Perm noId := by
  have hpp := prepass_perm ext m m' hp ht hext
  unfold parse finish
  simp only
  generalize prepass ext m = es at hcfT hcfV hfun hpp
  generalize prepass ext m' = es' at hpp
  have htrips := C07_trip_table_perm_invariant ext es es' hpp hcfT
  have hsortedT := C07_trips_perm_invariant ext es es' hpp hcfT
  obtain ⟨_, hnd, _, _⟩ := runEntities_inv ext es
  obtain ⟨_, hnd', _, _⟩ := runEntities_inv ext es'
  let le := fun (a b : VehicleID × VehData) => !vehLess b.1 a.1
  have hle : le = fun (a b : VehicleID × VehData) => !vehKeyLt (vehKey b.1) (vehKey a.1) := by
    funext a b; simp only [le, vehLess_eq_key]
  have hsortedV : (runEntities ext es').vehicles.mergeSort le = (runEntities ext es).vehicles.mergeSort le := by
    rw [hle]
    exact sorted_eq_of_lookup_eq vehKeyLt sto_vehKeyLt vehKey vehKey_injective _ _ hnd' hnd
      (C07_vehicle_table_perm_invariant ext es es' hpp hcfV)
  have hv2t : ∀ vid, alookup vid (runEntities ext es').vehToTrip = alookup vid (runEntities ext es).vehToTrip := by
    intro vid
    rw [vehToTrip_items, vehToTrip_items]
    have hit := allItems_perm ext es es' hpp
    have hrev : (allItems ext es').reverse.Perm (allItems ext es).reverse :=
      (List.reverse_perm _).trans (hit.trans (List.reverse_perm _).symm)
    apply findSome?_perm_of_const _ _ _ hrev
    intro a ha b hb x y
    exact hfun.2.2 vid a (List.mem_reverse.mp ha) b (List.mem_reverse.mp hb) x y
  constructor
  · rw [hsortedT]
    apply List.map_congr_left
    intro p _
    rw [tripVehicle_perm_invariant ext es es' hpp hcfV hfun]
  · refine ⟨((runEntities ext es).vehicles.mergeSort le).map fun p =>
        ({ data := p.2, trip := (alookup p.1 (runEntities ext es).vehToTrip).bind fun t => alookup t (runEntities ext es).trips } : VehicleOut),
      (runEntities ext es).noId.mapIdx fun i v =>
        ({ data := v, trip := (tripOfNoId (runEntities ext es) i).bind fun t => alookup t (runEntities ext es).trips } : VehicleOut),
      (runEntities ext es').noId.mapIdx fun i v =>
        ({ data := v, trip := (tripOfNoId (runEntities ext es') i).bind fun t => alookup t (runEntities ext es').trips } : VehicleOut),
      rfl, ?_, ?_⟩
    · congr 1
      rw [hsortedV]
      apply List.map_congr_left
      intro p _
      rw [hv2t]
      cases alookup p.1 (runEntities ext es).vehToTrip with
      | none => rfl
      | some t => simp only [Option.bind_some, htrips]
    · rw [noId_out_items, noId_out_items]
      have hid : (idless (allItems ext es')).Perm (idless (allItems ext es)) := (allItems_perm ext es es' hpp).filter _
      have hf : (fun it : VehData × Option TripID =>
            ({ data := it.1, trip := it.2.bind fun t => alookup t (runEntities ext es').trips } : VehicleOut))
          = fun it => { data := it.1, trip := it.2.bind fun t => alookup t (runEntities ext es).trips } := by
        funext it
        cases it.2 with
        | none => rfl
        | some t => simp only [Option.bind_some, htrips]
      rw [hf]
      exact hid.map _

end Gtfs.Rt

namespace Gtfs.Rt

/-! non-vacuity: the demonstration message of C02 (a trip update of trip "A" naming vehicle "V", the
    position of "V" on trip "A", an alert informing trip "B") meets every hypothesis of
    `C07_parse_perm_invariant` -/
example : FunctionalLinks (allItems .noExt (prepass .noExt demoMsg)) := functionalLinks_of_B _ (by decide)
example : (allItems .noExt (prepass .noExt demoMsg)).length = 2 := by decide

example : ConflictFreeTrips .noExt (prepass .noExt demoMsg) := conflictFreeTrips_of_nodup _ _ (by decide)
example : ConflictFreeVehicles .noExt (prepass .noExt demoMsg) := conflictFreeVehicles_of_nodup _ _ (by decide)

end Gtfs.Rt
