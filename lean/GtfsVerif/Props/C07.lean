import GtfsVerif.Lemmas.RealtimeLinks
import GtfsVerif.Props.C17Groups
/-! # C07 — realtime entities merge order-independently into unique, sorted trips / vehicles

Model: `Gtfs.Rt.parse` (Model/Realtime.lean): the extension pre-pass, the merge loop
`runEntities` over the entities (`entityStep`: mergeTrip / mergeVehicle / association tables) and
`finish` (link resolution, the sort by `TripID.Less`, the vehicle sort). -/
namespace Gtfs.Rt

/-! ## `TripID.Less` is a strict total order on the identifiers the parser produces -/

/-- `TripID.Less` is irreflexive and transitive on all identifiers, and trichotomous on
    well-formed ones (start time/date zero unless flagged – what `parseTripDescriptor` yields) -/
theorem C07_tripLess_strict_total :
    (∀ a, tripLess a a = false) ∧
    (∀ a b c, tripLess a b = true → tripLess b c = true → tripLess a c = true) ∧
    (∀ a b, WFId a → WFId b → tripLess a b = true ∨ a = b ∨ tripLess b a = true) := by
  refine ⟨?_, ?_, ?_⟩
  · intro a; rw [tripLess_eq_key]; exact sto_keyLt.irrefl _
  · intro a b c; simp only [tripLess_eq_key]; exact sto_keyLt.trans _ _ _
  · intro a b ha hb
    simp only [tripLess_eq_key]
    rcases sto_keyLt.tri (tripKey a) (tripKey b) with h | h | h
    · exact Or.inl h
    · exact Or.inr (Or.inl (tripKey_injective a b ha hb h))
    · exact Or.inr (Or.inr h)

theorem tripLe_trans (a b c : TripID × TripData) :
    (!tripLess b.1 a.1) = true → (!tripLess c.1 b.1) = true → (!tripLess c.1 a.1) = true := by
  simp only [tripLess_eq_key]
  exact sto_keyLt.le_trans_key (fun p : TripID × TripData => tripKey p.1) a b c

theorem tripLe_total (a b : TripID × TripData) : ((!tripLess b.1 a.1) || (!tripLess a.1 b.1)) = true := by
  simp only [tripLess_eq_key]
  exact sto_keyLt.le_total_key (fun p : TripID × TripData => tripKey p.1) a b

/-- **C07 (for every message): Trips is strictly increasing in the trip identifier** – hence
    sorted and free of duplicates. No hypothesis on the message or the extension. -/
theorem C07_trips_sorted_unique (ext : Ext) (m : Msg) :
    ((parse ext m).trips.map (·.data.id)).Pairwise (fun a b => tripLess a b = true) := by
  unfold parse finish
  simp only [List.map_map]
  generalize hacc : runEntities ext (prepass ext m) = acc
  have hinv : Inv acc := by rw [← hacc]; exact runEntities_inv ext _
  obtain ⟨⟨hnd, hid⟩, _⟩ := hinv
  have hperm := List.mergeSort_perm acc.trips (fun a b => !tripLess b.1 a.1)
  have hsorted := List.pairwise_mergeSort (le := fun (a b : TripID × TripData) => !tripLess b.1 a.1) tripLe_trans tripLe_total acc.trips
  have hnd' : (akeys (acc.trips.mergeSort fun a b => !tripLess b.1 a.1)).Nodup :=
    (List.Perm.nodup_iff (hperm.map _)).mpr hnd
  have hmem : ∀ p ∈ acc.trips.mergeSort (fun a b => !tripLess b.1 a.1), p.2.id = p.1 ∧ WFId p.1 :=
    fun p hp => hid p (hperm.subset hp)
  rw [List.pairwise_map]
  have hne : (acc.trips.mergeSort fun a b => !tripLess b.1 a.1).Pairwise (fun a b => a.1 ≠ b.1) := by
    simpa [akeys, List.Nodup, List.pairwise_map] using hnd'
  have hboth := hsorted.and hne
  refine List.Pairwise.imp_of_mem ?_ hboth
  intro a b ha hb ⟨hle, hn⟩
  simp only [Function.comp]
  rw [(hmem a ha).1, (hmem b hb).1]
  rcases C07_tripLess_strict_total.2.2 a.1 b.1 (hmem a ha).2 (hmem b hb).2 with h | h | h
  · exact h
  · exact absurd h hn
  · simp [h] at hle

/-- **C07 (for every message): Vehicles never holds two entries with the same vehicle identifier**
    (id, label, licence plate); entries without an identifier are the id-less vehicle positions. -/
theorem C07_vehicles_unique_ids (ext : Ext) (m : Msg) :
    ((parse ext m).vehicles.filterMap (·.data.id)).Nodup := by
  unfold parse finish
  simp only
  generalize hacc : runEntities ext (prepass ext m) = acc
  have hinv : Inv acc := by rw [← hacc]; exact runEntities_inv ext _
  obtain ⟨_, hnd, hid, hno⟩ := hinv
  rw [List.filterMap_append]
  have hperm := List.mergeSort_perm acc.vehicles (fun a b => !vehLess b.1 a.1)
  have h2 : (acc.noId.mapIdx fun i v => ({ data := v, trip := (tripOfNoId acc i).bind fun t => alookup t acc.trips } : VehicleOut)).filterMap (·.data.id) = [] := by
    rw [List.filterMap_eq_nil_iff]
    intro x hx
    simp only [List.mem_mapIdx] at hx
    obtain ⟨i, hi, rfl⟩ := hx
    exact hno _ (List.getElem_mem hi)
  rw [h2, List.append_nil]
  have h1 : ((acc.vehicles.mergeSort fun a b => !vehLess b.1 a.1).map fun p =>
      ({ data := p.2, trip := (alookup p.1 acc.vehToTrip).bind fun t => alookup t acc.trips } : VehicleOut)).filterMap (·.data.id)
      = akeys (acc.vehicles.mergeSort fun a b => !vehLess b.1 a.1) := by
    have : ∀ l : List (VehicleID × VehData), (∀ p ∈ l, p.2.id = some p.1) →
        (l.map fun p => ({ data := p.2, trip := (alookup p.1 acc.vehToTrip).bind fun t => alookup t acc.trips } : VehicleOut)).filterMap (·.data.id)
          = akeys l := by
      intro l
      induction l with
      | nil => intro _; rfl
      | cons q r ih =>
        intro hl
        simp only [List.map_cons, List.filterMap_cons, hl q (by simp), akeys]
        rw [ih (fun p hp => hl p (by simp [hp]))]; rfl
    exact this _ (fun p hp => hid p (hperm.subset hp))
  rw [h1]
  exact (List.Perm.nodup_iff (hperm.map _)).mpr hnd

/-! ## own entity wins: the merge step -/

/-- **own entity wins (one step)**: merging an entity of the trip's own replaces everything;
    merging a mere reference keeps the data already there and only (re)sets the identifier -/
theorem C07_mergeTrip_spec (cur : Option TripData) (new : TripData) :
    (new.inMessage = true → mergeTrip cur new = new) ∧
    (new.inMessage = false → mergeTrip cur new = { (cur.getD {}) with id := new.id }) := by
  unfold mergeTrip; constructor <;> intro h <;> simp [h]

theorem C07_mergeVehicle_spec (cur : Option VehData) (new : VehData) :
    (new.inMessage = true → mergeVehicle cur new = new) ∧
    (new.inMessage = false → mergeVehicle cur new = { (cur.getD {}) with id := new.id }) := by
  unfold mergeVehicle; constructor <;> intro h <;> simp [h]

/-- **own entity wins (whole mention list), wherever the own entity stands**: after merging any list of
    mentions of one trip id that contains exactly one own entity `own` (the conflict-free case), the
    table holds the data of `own` – references before it are overwritten, references after it keep it. -/
theorem C07_own_entity_wins (k : TripID) (before after : List TripData) (own : TripData)
    (hown : own.inMessage = true ∧ own.id = k)
    (hb : ∀ t ∈ before, t.inMessage = false ∧ t.id = k) (ha : ∀ t ∈ after, t.inMessage = false ∧ t.id = k)
    (acc : Acc) :
    alookup k ((before ++ own :: after).foldl addTrip acc).trips = some own := by
  have hrefs : ∀ (l : List TripData) (a : Acc), (∀ t ∈ l, t.inMessage = false ∧ t.id = k) →
      alookup k a.trips = some own → alookup k (l.foldl addTrip a).trips = some own := by
    intro l
    induction l with
    | nil => intro a _ h; simpa using h
    | cons t r ih =>
      intro a hl h
      simp only [List.foldl_cons]
      apply ih _ (fun x hx => hl x (by simp [hx]))
      obtain ⟨h1, h2⟩ := hl t (by simp)
      simp only [addTrip, h2, alookup_aset_same, h, mergeTrip, h1, Bool.false_eq_true, if_false, Option.getD_some]
      congr 1
      cases own; simp_all
  rw [List.foldl_append, List.foldl_cons]
  apply hrefs after _ ha
  simp [addTrip, hown.2, alookup_aset_same, mergeTrip, hown.1]

/-! ## order independence (partial): the trip table does not depend on the order of the
    mentions of different trips -/

theorem addTrip_lookup (acc : Acc) (t : TripData) (k : TripID) :
    alookup k (addTrip acc t).trips = if t.id = k then some (mergeTrip (alookup k acc.trips) t) else alookup k acc.trips := by
  unfold addTrip
  by_cases h : t.id = k
  · subst h; simp [alookup_aset_same]
  · simp only [h, if_false]; exact alookup_aset_other _ _ _ _ h

/-- mentions of different trips commute (as far as any lookup can tell) -/
theorem C07_addTrip_commute (acc : Acc) (s t : TripData) (h : s.id ≠ t.id) (k : TripID) :
    alookup k (addTrip (addTrip acc s) t).trips = alookup k (addTrip (addTrip acc t) s).trips := by
  simp only [addTrip_lookup]
  by_cases h1 : t.id = k <;> by_cases h2 : s.id = k <;> simp_all

/-! The full statement of order independence (every permutation of a conflict-free message's
    entities yields the same trips, vehicles and links; alerts keep feed order) is not yet one
    theorem. Proved so far: sortedness/uniqueness for all messages, own-entity-wins for any position
    of the own entity, commutation of mentions of different trips. The composition is carried by
    the correspondence (every case is parsed in 6 entity orders by the model and by the
    implementation) and listed as `partial` in the evidence. -/

end Gtfs.Rt

namespace Gtfs.Rt

/-! ## order independence of the trips (conflict-free messages) -/

/-- **any permutation of a conflict-free message's entities yields the same trip table**: the
    same identifiers, each with the same data (its own entity's data wherever that entity stands) -/
theorem C07_trip_table_perm_invariant (ext : Ext) (es es' : List (Entity × Bool)) (hp : es'.Perm es)
    (hcf : ConflictFreeTrips ext es) (k : TripID) :
    alookup k (runEntities ext es').trips = alookup k (runEntities ext es).trips := by
  rw [runEntities_trips, runEntities_trips, foldl_addTrip_lookup, foldl_addTrip_lookup]
  have hperm : (allMentions ext es').Perm (allMentions ext es) := (hp.filter _).flatMap_right _
  have : alookup k ({} : Acc).trips = none := rfl
  rw [this]
  apply mergeAll_perm k
  · exact hperm.filter _
  · intro m hm; simpa using (List.mem_filter.mp hm).2
  · exact hcf k

/-- **…and hence the same Trips list** (identifiers and data, in the same sorted order) -/
theorem C07_trips_perm_invariant (ext : Ext) (es es' : List (Entity × Bool)) (hp : es'.Perm es)
    (hcf : ConflictFreeTrips ext es) :
    ((runEntities ext es').trips.mergeSort fun a b => !tripLess b.1 a.1)
      = ((runEntities ext es).trips.mergeSort fun a b => !tripLess b.1 a.1) := by
  have inv := (runEntities_inv ext es).1
  have inv' := (runEntities_inv ext es').1
  have hperm : (runEntities ext es').trips.Perm (runEntities ext es).trips :=
    perm_of_lookup_eq _ _ inv'.1 inv.1 (C07_trip_table_perm_invariant ext es es' hp hcf)
  let le := fun (a b : TripID × TripData) => !tripLess b.1 a.1
  have h1 := List.pairwise_mergeSort (le := le) tripLe_trans tripLe_total (runEntities ext es').trips
  have h2 := List.pairwise_mergeSort (le := le) tripLe_trans tripLe_total (runEntities ext es).trips
  have hsp : ((runEntities ext es').trips.mergeSort le).Perm ((runEntities ext es).trips.mergeSort le) :=
    (List.mergeSort_perm _ le).trans (hperm.trans (List.mergeSort_perm _ le).symm)
  refine List.Perm.eq_of_pairwise (le := fun a b => le a b = true) ?_ h1 h2 hsp
  intro a b ha hb hab hba
  -- both are entries of the table of `es`; neither key is below the other, so the keys are equal
  have ha' : a ∈ (runEntities ext es).trips := (List.mergeSort_perm _ le).subset (hsp.subset ha)
  have hb' : b ∈ (runEntities ext es).trips := (List.mergeSort_perm _ le).subset hb
  have hkeys : a.1 = b.1 := by
    rcases C07_tripLess_strict_total.2.2 a.1 b.1 (inv.2 a ha').2 (inv.2 b hb').2 with h | h | h
    · simp [le, h] at hba
    · exact h
    · simp [le, h] at hab
  obtain ⟨ka, va⟩ := a
  obtain ⟨kb, vb⟩ := b
  simp only at hkeys
  subst hkeys
  have e1 := (mem_iff_alookup' _ inv.1 ka va).mp ha'
  have e2 := (mem_iff_alookup' _ inv.1 ka vb).mp hb'
  rw [e1] at e2
  cases e2; rfl

end Gtfs.Rt

namespace Gtfs.Rt

/-- the pre-pass of "no extension" and of the NYCT trips extension treats each entity on its own, so
    a permutation of the entities is a permutation of the pre-processed entities (the NYCT alerts
    extension groups elevator alerts by first occurrence: alerts keep their relative feed order and
    are not part of this statement) -/
theorem prepass_perm (ext : Ext) (m m' : Msg) (hp : m'.entities.Perm m.entities) (ht : m'.timestamp = m.timestamp)
    (hext : ∀ o, ext ≠ .alerts o) : (prepass ext m').Perm (prepass ext m) := by
  unfold prepass
  cases ext with
  | noExt => exact hp.map _
  | trips o => simp only [ht]; exact hp.map _
  | alerts o => exact absurd rfl (hext o)

/-- **C07 (order independence of Trips).** For a message without conflicting duplicates, any
    permutation of its entities yields the same Trips: the same identifiers in the same (sorted)
    order, each with the same data. -/
theorem C07_parse_trips_perm_invariant (ext : Ext) (m m' : Msg) (hp : m'.entities.Perm m.entities)
    (ht : m'.timestamp = m.timestamp) (hext : ∀ o, ext ≠ .alerts o)
    (hcf : ConflictFreeTrips ext (prepass ext m)) :
    (parse ext m').trips.map (·.data) = (parse ext m).trips.map (·.data) := by
  unfold parse finish
  simp only [List.map_map]
  have := C07_trips_perm_invariant ext (prepass ext m) (prepass ext m') (prepass_perm ext m m' hp ht hext) hcf
  have hcomp : ∀ acc : Acc, ((fun (t : TripOut) => t.data) ∘ fun (p : TripID × TripData) => ({ data := p.2, vehicle := tripVehicle acc p.1 } : TripOut))
      = fun p => p.2 := by intro acc; rfl
  rw [hcomp, hcomp, this]

end Gtfs.Rt

namespace Gtfs.Rt

/-! ## order independence of the vehicles (conflict-free messages) -/

/-- the vehicle order is a strict total order on vehicle identifiers -/
theorem C07_vehLess_strict_total :
    (∀ a, vehLess a a = false) ∧
    (∀ a b c, vehLess a b = true → vehLess b c = true → vehLess a c = true) ∧
    (∀ a b, vehLess a b = true ∨ a = b ∨ vehLess b a = true) := by
  refine ⟨?_, ?_, ?_⟩
  · intro a; rw [vehLess_eq_key]; exact sto_vehKeyLt.irrefl _
  · intro a b c; simp only [vehLess_eq_key]; exact sto_vehKeyLt.trans _ _ _
  · intro a b
    simp only [vehLess_eq_key]
    rcases sto_vehKeyLt.tri (vehKey a) (vehKey b) with h | h | h
    · exact Or.inl h
    · exact Or.inr (Or.inl (vehKey_injective a b h))
    · exact Or.inr (Or.inr h)

/-- any permutation of a conflict-free message's entities yields the same table of identified vehicles -/
theorem C07_vehicle_table_perm_invariant (ext : Ext) (es es' : List (Entity × Bool)) (hp : es'.Perm es)
    (hcf : ConflictFreeVehicles ext es) (k : VehicleID) :
    alookup k (runEntities ext es').vehicles = alookup k (runEntities ext es).vehicles := by
  rw [vehicles_lookup, vehicles_lookup]
  have hperm : (allVehMentions ext es').Perm (allVehMentions ext es) := (hp.filter _).flatMap_right _
  apply mergeAllV_perm k
  · exact hperm.filter _
  · intro m hm; simpa using (List.mem_filter.mp hm).2
  · exact hcf k

/-- **C07 (order independence of Vehicles).** For a message without conflicting duplicates, any
    permutation of its entities yields the same identified vehicles – the same identifiers in the same
    (sorted) order, each with the same data – followed by the same id-less vehicles (which have no
    identifier to sort by and keep feed order: the same multiset). -/
theorem C07_parse_vehicles_perm_invariant (ext : Ext) (m m' : Msg) (hp : m'.entities.Perm m.entities)
    (ht : m'.timestamp = m.timestamp) (hext : ∀ o, ext ≠ .alerts o)
    (hcf : ConflictFreeVehicles ext (prepass ext m)) :
    ∃ withId noId noId' : List VehData,
      (parse ext m).vehicles.map (·.data) = withId ++ noId ∧
      (parse ext m').vehicles.map (·.data) = withId ++ noId' ∧
      noId'.Perm noId ∧ (∀ v ∈ withId, v.id.isSome) ∧ (∀ v ∈ noId, v.id = none) := by
  have hpp := prepass_perm ext m m' hp ht hext
  let le := fun (a b : VehicleID × VehData) => !vehLess b.1 a.1
  have data_eq : ∀ (mm : Msg),
      (parse ext mm).vehicles.map (·.data)
        = ((runEntities ext (prepass ext mm)).vehicles.mergeSort le).map (·.2) ++ (runEntities ext (prepass ext mm)).noId := by
    intro mm
    unfold parse finish
    simp only
    rw [List.map_append, List.map_map]
    congr 1
    apply List.ext_getElem?
    intro i
    simp only [List.getElem?_map, List.getElem?_mapIdx, Option.map_map]
    cases (runEntities ext (prepass ext mm)).noId[i]? <;> rfl
  obtain ⟨_, hnd, hid, hno⟩ := runEntities_inv ext (prepass ext m)
  obtain ⟨_, hnd', _, _⟩ := runEntities_inv ext (prepass ext m')
  have hle : le = fun (a b : VehicleID × VehData) => !vehKeyLt (vehKey b.1) (vehKey a.1) := by
    funext a b; simp only [le, vehLess_eq_key]
  have hsorted : (runEntities ext (prepass ext m')).vehicles.mergeSort le = (runEntities ext (prepass ext m)).vehicles.mergeSort le := by
    rw [hle]
    exact sorted_eq_of_lookup_eq vehKeyLt sto_vehKeyLt vehKey vehKey_injective _ _ hnd' hnd
      (C07_vehicle_table_perm_invariant ext _ _ hpp hcf)
  refine ⟨((runEntities ext (prepass ext m)).vehicles.mergeSort le).map (·.2), (runEntities ext (prepass ext m)).noId,
    (runEntities ext (prepass ext m')).noId, data_eq m, ?_, ?_, ?_, hno⟩
  · rw [data_eq m', hsorted]
  · rw [noId_eq, noId_eq]
    exact ((hpp.filter _).flatMap_right _).filter _
  · intro v hv
    obtain ⟨p, hp', rfl⟩ := List.mem_map.mp hv
    rw [hid p ((List.mergeSort_perm _ le).subset hp')]; rfl

end Gtfs.Rt

namespace Gtfs.Rt

/-! ## order independence of the links (conflict-free messages) -/

theorem tripVehicle_perm_invariant (ext : Ext) (es es' : List (Entity × Bool)) (hp : es'.Perm es)
    (hcfV : ConflictFreeVehicles ext es) (hfun : FunctionalLinks (allItems ext es)) (t : TripID) :
    tripVehicle (runEntities ext es') t = tripVehicle (runEntities ext es) t := by
  rw [tripVehicle_items, tripVehicle_items]
  have hit := allItems_perm ext es es' hp
  have hrev : (allItems ext es').reverse.Perm (allItems ext es).reverse :=
    (List.reverse_perm _).trans (hit.trans (List.reverse_perm _).symm)
  have hfs : (allItems ext es').reverse.findSome? (linkOfTrip t) = (allItems ext es).reverse.findSome? (linkOfTrip t) := by
    apply findSome?_perm_of_const _ _ _ hrev
    intro a ha b hb x y
    exact hfun.1 t a (List.mem_reverse.mp ha) b (List.mem_reverse.mp hb) x y
  rw [hfs]
  cases (allItems ext es).reverse.findSome? (linkOfTrip t) with
  | some vid => exact C07_vehicle_table_perm_invariant ext es es' hp hcfV vid
  | none =>
    simp only
    have : ((idless (allItems ext es')).filter fun it => it.2 == some t) = ((idless (allItems ext es)).filter fun it => it.2 == some t) := by
      apply perm_eq_of_length_le_one _ _ _ (hfun.2.1 t)
      exact ((hit.filter _).filter _)
    rw [this]

/-- **C07 (order independence of Trips, Vehicles and the links between them).** For a message
    without conflicting duplicates or associations, any permutation of its entities yields the same
    `Trips` – identifiers, order, data and the vehicle each trip refers to – and the same `Vehicles`:
    the identified ones identical (order, data and the trip each refers to), the id-less ones the
    same multiset, each with the trip of its own entity. -/
theorem C07_finish_perm_invariant (ext : Ext) (c c' : Int) (es es' : List (Entity × Bool)) (hpp : es'.Perm es)
    (hcfT : ConflictFreeTrips ext es) (hcfV : ConflictFreeVehicles ext es) (hfun : FunctionalLinks (allItems ext es)) :
    (finish c' (runEntities ext es')).trips = (finish c (runEntities ext es)).trips ∧
    ∃ withId noId noId' : List VehicleOut,
      (finish c (runEntities ext es)).vehicles = withId ++ noId ∧ (finish c' (runEntities ext es')).vehicles = withId ++ noId' ∧
      noId'.Perm noId := by
  unfold finish
  simp only
  have htrips := C07_trip_table_perm_invariant ext es es' hpp hcfT
  have hsortedT := C07_trips_perm_invariant ext es es' hpp hcfT
  obtain ⟨_, hnd, _, _⟩ := runEntities_inv ext es
  obtain ⟨_, hnd', _, _⟩ := runEntities_inv ext es'
  let le := fun (a b : VehicleID × VehData) => !vehLess b.1 a.1
  have hle : le = fun (a b : VehicleID × VehData) => !vehKeyLt (vehKey b.1) (vehKey a.1) := by
    funext a b; simp only [le, vehLess_eq_key]
  have hsortedV : (runEntities ext es').vehicles.mergeSort le = (runEntities ext es).vehicles.mergeSort le := by
    rw [hle]
    exact sorted_eq_of_lookup_eq vehKeyLt sto_vehKeyLt vehKey vehKey_injective _ _ hnd' hnd
      (C07_vehicle_table_perm_invariant ext es es' hpp hcfV)
  have hv2t : ∀ vid, alookup vid (runEntities ext es').vehToTrip = alookup vid (runEntities ext es).vehToTrip := by
    intro vid
    rw [vehToTrip_items, vehToTrip_items]
    have hit := allItems_perm ext es es' hpp
    have hrev : (allItems ext es').reverse.Perm (allItems ext es).reverse :=
      (List.reverse_perm _).trans (hit.trans (List.reverse_perm _).symm)
    apply findSome?_perm_of_const _ _ _ hrev
    intro a ha b hb x y
    exact hfun.2.2 vid a (List.mem_reverse.mp ha) b (List.mem_reverse.mp hb) x y
  constructor
  · rw [hsortedT]
    apply List.map_congr_left
    intro p _
    rw [tripVehicle_perm_invariant ext es es' hpp hcfV hfun]
  · refine ⟨((runEntities ext es).vehicles.mergeSort le).map fun p =>
        ({ data := p.2, trip := (alookup p.1 (runEntities ext es).vehToTrip).bind fun t => alookup t (runEntities ext es).trips } : VehicleOut),
      (runEntities ext es).noId.mapIdx fun i v =>
        ({ data := v, trip := (tripOfNoId (runEntities ext es) i).bind fun t => alookup t (runEntities ext es).trips } : VehicleOut),
      (runEntities ext es').noId.mapIdx fun i v =>
        ({ data := v, trip := (tripOfNoId (runEntities ext es') i).bind fun t => alookup t (runEntities ext es').trips } : VehicleOut),
      rfl, ?_, ?_⟩
    · congr 1
      rw [hsortedV]
      apply List.map_congr_left
      intro p _
      rw [hv2t]
      cases alookup p.1 (runEntities ext es).vehToTrip with
      | none => rfl
      | some t => simp only [Option.bind_some, htrips]
    · rw [noId_out_items, noId_out_items]
      have hid : (idless (allItems ext es')).Perm (idless (allItems ext es)) := (allItems_perm ext es es' hpp).filter _
      have hf : (fun it : VehData × Option TripID =>
            ({ data := it.1, trip := it.2.bind fun t => alookup t (runEntities ext es').trips } : VehicleOut))
          = fun it => { data := it.1, trip := it.2.bind fun t => alookup t (runEntities ext es).trips } := by
        funext it
        cases it.2 with
        | none => rfl
        | some t => simp only [Option.bind_some, htrips]
      rw [hf]
      exact hid.map _

/-- the same for `ParseRealtime` with no extension or the NYCT trips extension, whose pre-pass works
    entity by entity (the NYCT alerts extension: `C07_parse_perm_invariant_alerts` below) -/
theorem C07_parse_perm_invariant (ext : Ext) (m m' : Msg) (hp : m'.entities.Perm m.entities)
    (ht : m'.timestamp = m.timestamp) (hext : ∀ o, ext ≠ .alerts o)
    (hcfT : ConflictFreeTrips ext (prepass ext m)) (hcfV : ConflictFreeVehicles ext (prepass ext m))
    (hfun : FunctionalLinks (allItems ext (prepass ext m))) :
    (parse ext m').trips = (parse ext m).trips ∧
    ∃ withId noId noId' : List VehicleOut,
      (parse ext m).vehicles = withId ++ noId ∧ (parse ext m').vehicles = withId ++ noId' ∧ noId'.Perm noId :=
  C07_finish_perm_invariant ext _ _ _ _ (prepass_perm ext m m' hp ht hext) hcfT hcfV hfun

end Gtfs.Rt

namespace Gtfs.Rt

/-! non-vacuity: the demonstration message of C02 (a trip update of trip "A" naming vehicle "V", the
    position of "V" on trip "A", an alert informing trip "B") meets every hypothesis of
    `C07_parse_perm_invariant` -/
example : FunctionalLinks (allItems .noExt (prepass .noExt demoMsg)) := functionalLinks_of_B _ (by decide)
example : (allItems .noExt (prepass .noExt demoMsg)).length = 2 := by decide

example : ConflictFreeTrips .noExt (prepass .noExt demoMsg) := conflictFreeTrips_of_nodup _ _ (by decide)
example : ConflictFreeVehicles .noExt (prepass .noExt demoMsg) := conflictFreeVehicles_of_nodup _ _ (by decide)

end Gtfs.Rt

/-! # the NYCT alerts extension: order independence of Trips and Vehicles although the pre-pass is order-sensitive -/

namespace Gtfs.Rt

theorem alertSelStep_stopSel_trips (acc : AlertAcc) (s : Str) : (alertSelStep acc (stopSel s)).trips = acc.trips := by
  have hi : identifies none = false := rfl
  simp only [alertSelStep, stopSel, Option.map_none, hi]
  by_cases h : (!informsSomething { routeType := routeTypeRT none, dir := dirRT none, stopId := some s }) = true <;> simp [h]

theorem foldl_stopSel_trips (l : List Str) (acc : AlertAcc) : ((l.map stopSel).foldl alertSelStep acc).trips = acc.trips := by
  induction l generalizing acc with
  | nil => rfl
  | cons s r ih => simp only [List.map_cons, List.foldl_cons]; rw [ih, alertSelStep_stopSel_trips]

theorem parseAlert_stopSels (id : Str) (fa : AlertMsg) (l : List Str) (h : fa.informed = l.map stopSel) :
    (parseAlert id fa).2 = [] := by
  simp only [parseAlert, h, foldl_stopSel_trips]

end Gtfs.Rt

namespace Gtfs.Rt

/-- what the pre-pass of the NYCT alerts extension does to one entity *as far as trips and vehicles are
    concerned*: plain entities pass, plain alerts are rewritten on their own, elevator alerts contribute
    nothing (whichever member of a group comes first, the entry left in the feed informs stops only) -/
def tvEntry (o : NyctAlertsOpts) (e : Entity) : Entity × Bool :=
  match e.tripUpdate, e.vehicle, e.alert with
  | none, none, some a =>
    match matchElevator e.id with
    | none => ({ e with alert := some (nyctUpdatePlainAlert o e.id a).1 }, (nyctUpdatePlainAlert o e.id a).2)
    | some _ => (e, true)
  | _, _, _ => (e, false)

/-- an entry that adds no trip, no vehicle and no link -/
def Silent (ext : Ext) (p : Entity × Bool) : Prop :=
  p.2 = true ∨ (tripMentions ext p.1 = [] ∧ vehMentions ext p.1 = [] ∧ vehItem ext p.1 = none)

def Rel (ext : Ext) (p q : Entity × Bool) : Prop := p = q ∨ (Silent ext p ∧ Silent ext q)

/-- element-wise relation between two lists of the same length -/
inductive AllRel {α β} (R : α → β → Prop) : List α → List β → Prop
  | nil : AllRel R [] []
  | cons {a b l m} : R a b → AllRel R l m → AllRel R (a :: l) (b :: m)

theorem mentions_congr (ext : Ext) (D T : List (Entity × Bool)) (h : AllRel (Rel ext) D T) :
    allMentions ext D = allMentions ext T ∧ allVehMentions ext D = allVehMentions ext T ∧ allItems ext D = allItems ext T := by
  induction h with
  | nil => exact ⟨rfl, rfl, rfl⟩
  | @cons p q D T hpq _ ih =>
    obtain ⟨i1, i2, i3⟩ := ih
    unfold allMentions allVehMentions allItems at *
    rcases hpq with rfl | ⟨hp, hq⟩
    · simp only [List.filter_cons]
      split
      · simp only [List.flatMap_cons, List.filterMap_cons, i1, i2, i3]
        exact ⟨trivial, trivial, trivial⟩
      · exact ⟨i1, i2, i3⟩
    · have key : ∀ r : Entity × Bool, Silent ext r →
          ((r :: ([] : List (Entity × Bool))).filter fun p => !p.2).flatMap (fun p => tripMentions ext p.1) = [] ∧
          ((r :: ([] : List (Entity × Bool))).filter fun p => !p.2).flatMap (fun p => vehMentions ext p.1) = [] ∧
          ((r :: ([] : List (Entity × Bool))).filter fun p => !p.2).filterMap (fun p => vehItem ext p.1) = [] := by
        intro r hr
        rcases hr with hs | ⟨h1, h2, h3⟩
        · simp [List.filter_cons, hs]
        · simp only [List.filter_cons]
          split <;> simp [h1, h2, h3]
      have kp := key p hp
      have kq := key q hq
      have e1 : ∀ (x : Entity × Bool) (L : List (Entity × Bool)), x :: L = [x] ++ L := fun _ _ => rfl
      rw [e1 p D, e1 q T]
      simp only [List.filter_append, List.flatMap_append, List.filterMap_append, kp.1, kp.2.1, kp.2.2, kq.1, kq.2.1, kq.2.2,
        List.nil_append, i1, i2, i3]
      exact ⟨trivial, trivial, trivial⟩

theorem forall₂_of_index {α β} (R : α → β → Prop) (D : List α) (T : List β) (hl : D.length = T.length)
    (h : ∀ (j : Nat) p q, D[j]? = some p → T[j]? = some q → R p q) : AllRel R D T := by
  induction D generalizing T with
  | nil =>
    cases T with
    | nil => exact .nil
    | cons _ _ => simp at hl
  | cons p D ih =>
    cases T with
    | nil => simp at hl
    | cons q T =>
      refine .cons (h 0 p q rfl rfl) (ih T (by simpa using hl) ?_)
      intro j p' q' h1 h2
      exact h (j + 1) p' q' (by simpa using h1) (by simpa using h2)

end Gtfs.Rt

namespace Gtfs.Rt

theorem elev_silent (ext : Ext) (ent : Entity) (fa : AlertMsg) (l : List Str) (htu : ent.tripUpdate = none) (hv : ent.vehicle = none)
    (hal : ent.alert = some fa) (hinf : fa.informed = l.map stopSel) : Silent ext (ent, false) := by
  right
  refine ⟨?_, ?_, ?_⟩
  · simp [tripMentions, htu, hv, hal, parseAlert_stopSels ent.id fa l hinf]
  · simp [vehMentions, htu, hv]
  · simp [vehItem, htu, hv]

/-- the entry at a group's position is silent -/
theorem group_silent (o : NyctAlertsOpts) (pre : List Entity) (st : AlertPass) (hG : GInv o pre st) (hA : AOnly st)
    (k : Str) (i : Nat) (h : alookup k st.groups = some i) : ∃ p, st.done[i]? = some p ∧ Silent (.alerts o) p := by
  obtain ⟨ent, fa, hd, _, hal, hinf, _, _⟩ := hG.1 k i h
  obtain ⟨p, hp, htu, hv⟩ := hA k i h
  rw [hd] at hp; cases hp
  exact ⟨_, hd, elev_silent _ ent fa _ htu hv hal hinf⟩

theorem tvEntry_of_key (o : NyctAlertsOpts) (e : Entity) (k : Str) (h : groupKeyOf o e = some k) : tvEntry o e = (e, true) := by
  unfold groupKeyOf at h
  unfold tvEntry
  split at h
  · next a h1 h2 h3 =>
    simp only [h1, h2, h3]
    cases hm : matchElevator e.id with
    | none => simp [hm] at h
    | some m => rfl
  · simp at h

theorem tvEntry_of_noKey (o : NyctAlertsOpts) (st : AlertPass) (e : Entity) (h : groupKeyOf o e = none) :
    (passStep o st e).done = st.done ++ [tvEntry o e] := by
  unfold groupKeyOf at h
  unfold passStep tvEntry
  cases h1 : e.tripUpdate <;> cases h2 : e.vehicle <;> cases h3 : e.alert <;> simp only [h1, h2, h3] at h ⊢
  rename_i a
  cases hm : matchElevator e.id with
  | none => simp [alertPassStep, hm, h1, h2]
  | some m => simp [hm] at h

/-- the entries after a step on an elevator alert: old entries stay, except possibly the one at a
    group's position (before and after); the new entry is skipped or sits at a group's position -/
theorem passStep_done_key (o : NyctAlertsOpts) (st : AlertPass) (e : Entity) (k : Str) (h : groupKeyOf o e = some k) :
    (passStep o st e).done.length = st.done.length + 1 ∧
    (∀ (j : Nat) p', j < st.done.length → (passStep o st e).done[j]? = some p' →
        st.done[j]? = some p' ∨ ∃ k, alookup k (passStep o st e).groups = some j ∧ alookup k st.groups = some j) ∧
    (∀ p', (passStep o st e).done[st.done.length]? = some p' →
        p'.2 = true ∨ ∃ k, alookup k (passStep o st e).groups = some st.done.length) := by
  refine ⟨(passStep_spec o st e).1, ?_, ?_⟩
  all_goals
    unfold groupKeyOf at h
    unfold passStep
    cases h1 : e.tripUpdate <;> cases h2 : e.vehicle <;> cases h3 : e.alert <;> simp only [h1, h2, h3] at h ⊢ <;>
      first | (simp at h; done) | skip
    rename_i a
    unfold alertPassStep
    cases hm : matchElevator e.id with
    | none => simp [hm] at h
    | some m =>
      obtain ⟨station, suffix, elevator⟩ := m
      simp only
      cases hl : alookup (elevatorNewId o station suffix elevator) st.groups with
      | some i =>
        simp only
        first
        | (intro j p' hj hp'
           rw [List.getElem?_append_left (by rw [modifyAt_length]; exact hj), modifyAt_getElem?] at hp'
           by_cases hji : j = i
           · subst hji; exact Or.inr ⟨_, hl, hl⟩
           · left
             cases hd : st.done[j]? with
             | none => rw [hd] at hp'; simp at hp'
             | some x => rw [hd] at hp'; simpa [hji] using hp')
        | (intro p' hp'
           rw [List.getElem?_append_right (by rw [modifyAt_length]; exact Nat.le_refl _), modifyAt_length, Nat.sub_self] at hp'
           simp only [List.getElem?_cons_zero, Option.some.injEq] at hp'
           left; rw [← hp'])
      | none =>
        simp only
        first
        | (intro j p' hj hp'
           rw [List.getElem?_append_left hj] at hp'
           exact Or.inl hp')
        | (intro p' _
           right
           refine ⟨elevatorNewId o station suffix elevator, ?_⟩
           rw [alookup_append, hl]
           simp [alookup])

end Gtfs.Rt

namespace Gtfs.Rt

def RInv (o : NyctAlertsOpts) (pre : List Entity) (st : AlertPass) : Prop :=
  st.done.length = pre.length ∧
  ∀ (j : Nat) p e, st.done[j]? = some p → pre[j]? = some e → Rel (.alerts o) p (tvEntry o e)

theorem silent_partner (ext : Ext) (p q : Entity × Bool) (hr : Rel ext p q) (hp : Silent ext p) : Silent ext q := by
  rcases hr with rfl | ⟨_, hq⟩
  · exact hp
  · exact hq

theorem passStep_RInv (o : NyctAlertsOpts) (pre : List Entity) (st : AlertPass) (e : Entity)
    (hG : GInv o pre st) (hA : AOnly st) (hR : RInv o pre st) : RInv o (pre ++ [e]) (passStep o st e) := by
  obtain ⟨hlen, hrel⟩ := hR
  have hG' := passStep_GInv o pre st e hG
  have hA' := passStep_AOnly o st e hA
  cases hk : groupKeyOf o e with
  | none =>
    have hd := tvEntry_of_noKey o st e hk
    refine ⟨by rw [hd]; simp [hlen], ?_⟩
    intro j p e' hp he'
    rw [hd] at hp
    by_cases hj : j < st.done.length
    · rw [List.getElem?_append_left hj] at hp
      rw [List.getElem?_append_left (by omega)] at he'
      exact hrel j p e' hp he'
    · by_cases hj2 : j = st.done.length
      · subst hj2
        rw [List.getElem?_append_right (Nat.le_refl _), Nat.sub_self] at hp
        rw [hlen, List.getElem?_append_right (Nat.le_refl _), Nat.sub_self] at he'
        simp only [List.getElem?_cons_zero, Option.some.injEq] at hp he'
        subst hp he'
        exact Or.inl rfl
      · have : (st.done ++ [tvEntry o e]).length ≤ j := by simp; omega
        rw [List.getElem?_eq_none this] at hp; cases hp
  | some k =>
    obtain ⟨hl', hold, hnew⟩ := passStep_done_key o st e k hk
    refine ⟨by rw [hl']; simp [hlen], ?_⟩
    intro j p e' hp he'
    by_cases hj : j < st.done.length
    · rw [List.getElem?_append_left (by omega)] at he'
      rcases hold j p hj hp with h0 | ⟨k', hpost, hpre⟩
      · exact hrel j p e' h0 he'
      · obtain ⟨p1, hp1, hs1⟩ := group_silent o _ _ hG' hA' k' j hpost
        rw [hp] at hp1; cases hp1
        obtain ⟨p0, hp0, hs0⟩ := group_silent o _ _ hG hA k' j hpre
        exact Or.inr ⟨hs1, silent_partner _ _ _ (hrel j p0 e' hp0 he') hs0⟩
    · by_cases hj2 : j = st.done.length
      · subst hj2
        rw [hlen, List.getElem?_append_right (Nat.le_refl _), Nat.sub_self] at he'
        simp only [List.getElem?_cons_zero, Option.some.injEq] at he'
        subst he'
        rw [tvEntry_of_key o e k hk]
        refine Or.inr ⟨?_, Or.inl rfl⟩
        rcases hnew p hp with hs | ⟨k', hpost⟩
        · exact Or.inl hs
        · obtain ⟨p1, hp1, hs1⟩ := group_silent o _ _ hG' hA' k' _ hpost
          rw [hp] at hp1; cases hp1
          exact hs1
      · have : (passStep o st e).done.length ≤ j := by omega
        rw [List.getElem?_eq_none this] at hp; cases hp

/-- **as far as trips, vehicles and links go, the pre-pass is `tvEntry` applied entity by entity** -/
theorem prepass_alerts_mentions (o : NyctAlertsOpts) (m : Msg) :
    allMentions (.alerts o) (prepass (.alerts o) m) = allMentions (.alerts o) (m.entities.map (tvEntry o)) ∧
    allVehMentions (.alerts o) (prepass (.alerts o) m) = allVehMentions (.alerts o) (m.entities.map (tvEntry o)) ∧
    allItems (.alerts o) (prepass (.alerts o) m) = allItems (.alerts o) (m.entities.map (tvEntry o)) := by
  have H : ∀ (es pre : List Entity) (st : AlertPass), GInv o pre st → AOnly st → RInv o pre st →
      RInv o (pre ++ es) (es.foldl (passStep o) st) := by
    intro es
    induction es with
    | nil => intro pre st _ _ h; simpa using h
    | cons e r ih =>
      intro pre st hG hA hR
      simp only [List.foldl_cons]
      have := ih (pre ++ [e]) _ (passStep_GInv o pre st e hG) (passStep_AOnly o st e hA) (passStep_RInv o pre st e hG hA hR)
      simpa using this
  have hR := H m.entities [] {} ⟨by intro k i h; simp [alookup] at h, by intro k _; rfl⟩
    (by intro k i hl; simp [alookup] at hl) ⟨rfl, by intro j p e hp; simp at hp⟩
  simp only [List.nil_append] at hR
  rw [C17_prepass_is_fold]
  apply mentions_congr
  apply forall₂_of_index
  · rw [hR.1]; simp
  · intro j p q hp hq
    rw [List.getElem?_map] at hq
    cases he : m.entities[j]? with
    | none => rw [he] at hq; simp at hq
    | some e' =>
      rw [he] at hq
      simp only [Option.map_some, Option.some.injEq] at hq
      subst hq
      exact hR.2 j p e' hp he

end Gtfs.Rt

namespace Gtfs.Rt

/-- the merge loop's trip, vehicle and link tables are functions of the mention lists -/
theorem runEntities_tables_congr (ext : Ext) (D T : List (Entity × Bool))
    (h1 : allMentions ext D = allMentions ext T) (h2 : allVehMentions ext D = allVehMentions ext T)
    (h3 : allItems ext D = allItems ext T) :
    (runEntities ext D).trips = (runEntities ext T).trips ∧ (runEntities ext D).vehicles = (runEntities ext T).vehicles ∧
    (runEntities ext D).tripToVeh = (runEntities ext T).tripToVeh ∧ (runEntities ext D).vehToTrip = (runEntities ext T).vehToTrip ∧
    (runEntities ext D).noId = (runEntities ext T).noId ∧ (runEntities ext D).noIdLinks = (runEntities ext T).noIdLinks := by
  have t1 := runEntities_trips ext D
  have t2 := runEntities_trips ext T
  unfold allMentions at h1
  rw [h1] at t1
  obtain ⟨v1, n1⟩ := runEntities_vehicles ext D
  obtain ⟨v2, n2⟩ := runEntities_vehicles ext T
  rw [h2] at v1 n1
  obtain ⟨a1, a2, _, a4⟩ := runEntities_links ext D
  obtain ⟨b1, b2, _, b4⟩ := runEntities_links ext T
  rw [h3] at a1 a2 a4
  exact ⟨t1.trans t2.symm, v1.trans v2.symm, a1.trans b1.symm, a2.trans b2.symm, n1.trans n2.symm, a4.trans b4.symm⟩

theorem finish_congr (c : Int) (a b : Acc) (h : a.trips = b.trips ∧ a.vehicles = b.vehicles ∧ a.tripToVeh = b.tripToVeh ∧
    a.vehToTrip = b.vehToTrip ∧ a.noId = b.noId ∧ a.noIdLinks = b.noIdLinks) :
    (finish c a).trips = (finish c b).trips ∧ (finish c a).vehicles = (finish c b).vehicles := by
  obtain ⟨h1, h2, h3, h4, h5, h6⟩ := h
  have tv : ∀ t, tripVehicle a t = tripVehicle b t := by
    intro t; simp only [tripVehicle, noIdLinkOf, h2, h3, h5, h6]
  have tn : ∀ i, tripOfNoId a i = tripOfNoId b i := by
    intro i; simp only [tripOfNoId, h6]
  simp only [finish, h1, h2, h4, h5, tv, tn, and_self]

/-- **C07 for the NYCT alerts extension.** Its pre-pass groups elevator alerts by first occurrence, so
    the pre-processed feed of a permuted message is *not* a permutation of the original's; but what it
    leaves of an elevator alert names no trip and no vehicle, and everything else is rewritten entity by
    entity – so `Trips`, `Vehicles` and the links between them are the same for every order, exactly as
    without the extension. (`Alerts` keep feed order: `C17_alerts_end_to_end`; the stops of a group are
    the same set for every order: `C17_group_stops_perm`.) -/
theorem C07_parse_perm_invariant_alerts (o : NyctAlertsOpts) (m m' : Msg) (hp : m'.entities.Perm m.entities)
    (hcfT : ConflictFreeTrips (.alerts o) (prepass (.alerts o) m)) (hcfV : ConflictFreeVehicles (.alerts o) (prepass (.alerts o) m))
    (hfun : FunctionalLinks (allItems (.alerts o) (prepass (.alerts o) m))) :
    (parse (.alerts o) m').trips = (parse (.alerts o) m).trips ∧
    ∃ withId noId noId' : List VehicleOut,
      (parse (.alerts o) m).vehicles = withId ++ noId ∧ (parse (.alerts o) m').vehicles = withId ++ noId' ∧ noId'.Perm noId := by
  obtain ⟨e1, e2, e3⟩ := prepass_alerts_mentions o m
  obtain ⟨e1', e2', e3'⟩ := prepass_alerts_mentions o m'
  have hcfT' : ConflictFreeTrips (.alerts o) (m.entities.map (tvEntry o)) := by
    intro k; have := hcfT k; rw [e1] at this; exact this
  have hcfV' : ConflictFreeVehicles (.alerts o) (m.entities.map (tvEntry o)) := by
    intro k; have := hcfV k; rw [e2] at this; exact this
  have hfun' : FunctionalLinks (allItems (.alerts o) (m.entities.map (tvEntry o))) := by rw [← e3]; exact hfun
  have core := C07_finish_perm_invariant (.alerts o) ((m.timestamp.map wrap64).getD zeroTimeUnix) ((m'.timestamp.map wrap64).getD zeroTimeUnix)
    _ _ (hp.map (tvEntry o)) hcfT' hcfV' hfun'
  obtain ⟨c1, c2⟩ := finish_congr ((m.timestamp.map wrap64).getD zeroTimeUnix) _ _
    (runEntities_tables_congr (.alerts o) _ _ e1 e2 e3)
  obtain ⟨c1', c2'⟩ := finish_congr ((m'.timestamp.map wrap64).getD zeroTimeUnix) _ _
    (runEntities_tables_congr (.alerts o) _ _ e1' e2' e3')
  simp only [parse]
  rw [c1, c2, c1', c2']
  exact core

end Gtfs.Rt

/-! non-vacuity: the demonstration message between two members of one elevator group ("A10N#EL1", "A10S#EL1", in-station
    policy) meets every hypothesis of `C07_parse_perm_invariant_alerts`; the second member is skipped -/
namespace Gtfs.Rt
private def elN' : Entity := { id := [65, 49, 48, 78, 35, 69, 76, 49], alert := some {} }
private def elS' : Entity := { id := [65, 49, 48, 83, 35, 69, 76, 49], alert := some {} }
private def optsSt' : NyctAlertsOpts := { policy := .station }
private def demoAl : Msg := { demoMsg with entities := elN' :: demoMsg.entities ++ [elS'] }
example : FunctionalLinks (allItems (.alerts optsSt') (prepass (.alerts optsSt') demoAl)) := functionalLinks_of_B _ (by decide)
example : ConflictFreeTrips (.alerts optsSt') (prepass (.alerts optsSt') demoAl) := conflictFreeTrips_of_nodup _ _ (by decide)
example : ConflictFreeVehicles (.alerts optsSt') (prepass (.alerts optsSt') demoAl) := conflictFreeVehicles_of_nodup _ _ (by decide)
example : (prepass (.alerts optsSt') demoAl).map (·.2) = [false, false, false, false, true] := by decide
end Gtfs.Rt
