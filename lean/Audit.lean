import Lean
/-! `lake env lean --run Audit.lean GtfsVerif.Props.C14` – lists every theorem declared in the given
    module with the axioms it depends on, as one JSON object. The check accepts only
    `propext`, `Classical.choice`, `Quot.sound`. -/
open Lean

abbrev EnvM := StateM Environment
instance : MonadEnv EnvM where
  getEnv := get
  modifyEnv f := modify f

unsafe def main (args : List String) : IO UInt32 := do
  let some modStr := args.head? | do IO.eprintln "usage: Audit <module>"; return 2
  let modName := modStr.toName
  initSearchPath (← findSysroot)
  unsafe enableInitializersExecution
  let env ← importModules #[{ module := modName }] {} (loadExts := true)
  let some idx := env.getModuleIdx? modName | do IO.eprintln "module not found"; return 2
  let mut out : Array Json := #[]
  for (n, ci) in env.constants.map₁.toList do
    if env.getModuleIdxFor? n != some idx then continue
    if n.isInternal then continue
    -- equation lemmas Lean generates on demand (`f.eq_1`, `f.eq_def`, …) are not statements of ours
    let last := match n with | .str _ s => s | _ => ""
    if last.startsWith "eq_" || last.startsWith "match_" || last.startsWith "proof_" || last == "sizeOf_spec" then continue
    match ci with
    | .thmInfo _ =>
      let (axs, _) := (collectAxioms (m := EnvM) n).run env
      out := out.push (Json.mkObj [("name", Json.str n.toString), ("axioms", toJson (axs.toList.map toString))])
    | _ => pure ()
  IO.println (Json.mkObj [("module", Json.str modStr), ("theorems", Json.arr out)]).compress
  return 0
