import Protocol
import GtfsVerif.Gen.HashSchema
open Lean Gtfs Gtfs.Proto
namespace Gtfs.DHash
open Gtfs.Hash Gtfs.Gen.HashSchema

def fixedOf (k : Nat) (n : Nat) : R (Fixed k) :=
  if h : n < 256 ^ k then pure ⟨n, h⟩ else throw s!"value {n} does not fit {k} bytes"

def lstrOf (s : Str) : R LStr :=
  if h : s.length < 256 ^ 8 then pure ⟨s, h⟩ else throw "string too long"

def getFixed (k : Nat) (j : Json) (key : String) : R (Fixed k) := do fixedOf k (← getNatD j key 0)
def getOptFixed (k : Nat) (j : Json) (key : String) : R (Option (Fixed k)) :=
  getOpt (fun v => do fixedOf k (← asNat v)) j key
def getLStr (j : Json) (key : String) : R LStr := do lstrOf (← getStrD j key [])
def getOptLStr (j : Json) (key : String) : R (Option LStr) := getOpt (fun v => do lstrOf (← asStr v)) j key

def eventOf (j : Json) : R EventData := do
  return { time := ← getOptFixed 8 j "time", delay := ← getOptFixed 8 j "delay", uncertainty := ← getOptFixed 4 j "uncertainty" }

def stuOf (j : Json) : R StuData := do
  return { stopSequence := ← getOptFixed 4 j "stopSequence", stopId := ← getOptLStr j "stopId", track := ← getOptLStr j "track",
           sr := ← getFixed 4 j "sr", arrival := ← getOpt eventOf j "arrival", departure := ← getOpt eventOf j "departure" }

def tripOf (j : Json) : R TripData := do
  let stus ← getList stuOf j "stus"
  if h : stus.length < 256 ^ 8 then
    return { id := ← getLStr j "id", routeId := ← getLStr j "routeId", dir := ← getFixed 1 j "dir",
             hasStartDate := ← getFixed 1 j "hasStartDate", startDate := ← getFixed 8 j "startDate",
             hasStartTime := ← getFixed 1 j "hasStartTime", startTime := ← getFixed 8 j "startTime",
             sr := ← getFixed 4 j "sr", stus := ⟨stus, h⟩ }
  else throw "too many updates"

def vidOf (j : Json) : R VehicleIdData := do
  return { id := ← getLStr j "id", label := ← getLStr j "label", licensePlate := ← getLStr j "licensePlate" }

def posOf (j : Json) : R PositionData := do
  return { latitude := ← getOptFixed 4 j "latitude", longitude := ← getOptFixed 4 j "longitude", bearing := ← getOptFixed 4 j "bearing",
           odometer := ← getOptFixed 8 j "odometer", speed := ← getOptFixed 4 j "speed" }

def vehicleOf (j : Json) : R VehicleData := do
  return { id := ← getOpt vidOf j "id", trip := ← getOpt tripOf j "trip", position := ← getOpt posOf j "position",
           currentStopSequence := ← getOptFixed 4 j "currentStopSequence", stopId := ← getOptLStr j "stopId",
           currentStatus := ← getOptFixed 4 j "currentStatus", timestamp := ← getOptFixed 8 j "timestamp",
           congestionLevel := ← getFixed 4 j "congestionLevel", occupancyStatus := ← getOptFixed 4 j "occupancyStatus",
           occupancyPercentage := ← getOptFixed 4 j "occupancyPercentage" }

def streamOf (j : Json) : R Str := do
  match fieldOpt j "trip", fieldOpt j "vehicle" with
  | some t, _ => return encTrip (← tripOf t)
  | none, some v => return encVehicle (← vehicleOf v)
  | none, none => throw "neither trip nor vehicle"

/-- input: {"a": {"trip"|"vehicle": ...}, "b": optional same} → streams of both -/
def handle (j : Json) : R Json := do
  let a ← streamOf (← field j "a")
  match fieldOpt j "b" with
  | none => return jObj [("a", jStr a)]
  | some bj =>
    let b ← streamOf bj
    return jObj [("a", jStr a), ("b", jStr b), ("equal", jBool (a == b))]

end Gtfs.DHash
