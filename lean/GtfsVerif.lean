import GtfsVerif.Model.Basic
import GtfsVerif.Model.Journal
