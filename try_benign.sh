#!/bin/sh
# usage: ./try_benign.sh <patch> [props...]   applies a behaviour-preserving patch to /repo, runs the quick checks, reverts
p=$(realpath $1); shift
props="$@"; [ -z "$props" ] && props="C01 C02 C03 C04 C05 C06 C07 C08 C09 C10 C11 C12 C13 C14 C15 C16 C17 C18 C19 C20"
git -C /repo apply "$p" || exit 2
for q in $props; do ./check $q quick 2>&1 | grep -v "^KNOWN-FINDING" | cut -c1-220 | head -3; done
git -C /repo checkout -- .; git -C /repo clean -fdq
./regen.sh
