#!/bin/sh
# usage (background, from a snapshot):  vp run --with-repo --timeout 6h -- ./sweep.sh <tier> <seed>...
# Runs every check at the given tier for each seed against a private copy of the repository ($VP_RUN_REPO if set)
# and prints one line per check; not a registered check, a sweep for false alarms on the unchanged tree.
tier=$1; shift
repo=${VP_RUN_REPO:-/repo}
if [ "$repo" != /repo ]; then
  sed -i "s#=> /repo#=> $repo#" go/go.mod
  export VERIF_REPO=$repo
fi
./setup.sh > setup.log 2>&1 || { echo "setup failed"; tail -20 setup.log; exit 1; }
for s in "$@"; do
  for i in 01 02 03 04 05 06 07 08 09 10 11 12 13 14 15 16 17 18 19 20; do
    VERIF_SEED=$s ./check C$i $tier > out-$s-C$i.log 2>&1; rc=$?
    echo "seed=$s C$i rc=$rc $(grep -c VIOLATION out-$s-C$i.log) $(tail -1 out-$s-C$i.log | cut -c1-200)"
    if [ $rc -ne 0 ]; then mkdir -p keep; cp -r replays keep/replays-$s-C$i 2>/dev/null; fi
  done
done
