#!/usr/bin/env python3
"""Regression test of the machinery itself (not a check): replays every stored seeded change and every stored
behaviour-preserving refactoring in a scratch copy of /repo and /verif under /tmp/selftest (removed at the end).
A seed must make the check of its own property print a VIOLATION line; a refactoring must leave all twenty quiet.
usage: ./selftest.py [--seeds-only] [--benign-only] [--only <glob of seed dir names>] [--only-benign <glob of refactoring dir names>] [--props C05,C06,… (the checks run on each refactoring; default all twenty)] [--base <scratch dir>] [--log <file>]     -> build/selftest.log, exit 1 when an expectation fails"""
import glob, json, os, shutil, subprocess, sys
ENV = dict(os.environ, GOFLAGS="-mod=mod", GOPROXY="off", GOSUMDB="off", GOTOOLCHAIN="local")
def sh(cmd, cwd=None, env=None):
    p = subprocess.run(cmd, cwd=cwd, env=env or ENV, stdout=subprocess.PIPE, stderr=subprocess.STDOUT, text=True)
    return p.returncode, p.stdout
def opt(name, dflt):
    return sys.argv[sys.argv.index(name) + 1] if name in sys.argv else dflt
base = opt("--base", "/tmp/selftest")
only = opt("--only", "*")
only_benign = opt("--only-benign", "*")
shutil.rmtree(base, ignore_errors=True); os.makedirs(base)
repo, verif = base + "/repo", base + "/verif"
sh(["bash", "-c", f"mkdir -p {repo} && git -C /repo archive HEAD | tar -x -C {repo} && cd {repo} && git init -q && git add -A && git -c user.email=x@x -c user.name=x commit -qm base"])
sh(["rsync", "-a", "--exclude", ".git", "--exclude", "build/driver-*", "--exclude", "build/harness*", "--exclude", "replays", "--exclude", "evidence",
    "--exclude", "mutation/results", "--exclude", "mutation/polluted", "/verif/", verif + "/"])
gm = open(verif + "/go/go.mod").read().replace("=> /repo", "=> " + repo)
open(verif + "/go/go.mod", "w").write(gm)
env = dict(ENV, VERIF_REPO=repo)
log = open(opt("--log", "/verif/build/selftest.log"), "w")
bad = 0
def run_check(prop):
    rc, out = sh([verif + "/check", prop, "quick"], cwd=verif, env=env)
    return [l for l in out.splitlines() if l.startswith("VIOLATION")], out
if "--benign-only" not in sys.argv:
    for d in sorted(glob.glob("/verif/seeded/" + only + "/")):
        name = os.path.basename(d.rstrip("/")); prop = name.split("-")[0]
        rc, out = sh(["git", "-C", repo, "apply", d + "patch.diff"])
        if rc != 0:
            print(f"SEED {name}: patch does not apply", file=log); bad += 1; continue
        v, out = run_check(prop)
        sh(["git", "-C", repo, "checkout", "--", "."]); sh(["git", "-C", repo, "clean", "-fdq"])
        ok = len(v) > 0
        print(f"SEED {name}: {'caught' if ok else 'MISSED'} {v[0][:120] if v else ''}", file=log); log.flush()
        bad += 0 if ok else 1
if "--seeds-only" not in sys.argv:
    props = opt("--props", ",".join(f"C{i:02d}" for i in range(1, 21))).split(",")
    for d in sorted(glob.glob("/verif/benign/" + only_benign + "/")):
        name = os.path.basename(d.rstrip("/"))
        rc, out = sh(["git", "-C", repo, "apply", d + "patch.diff"])
        if rc != 0:
            print(f"BENIGN {name}: patch does not apply", file=log); bad += 1; continue
        alarms = []
        for p in props:
            v, out = run_check(p)
            if v: alarms.append(p)
        sh(["git", "-C", repo, "checkout", "--", "."]); sh(["git", "-C", repo, "clean", "-fdq"])
        print(f"BENIGN {name}: {'quiet' if not alarms else 'ALARMS ' + ' '.join(alarms)}", file=log); log.flush()
        bad += 1 if alarms else 0
print(f"expectations failed: {bad}", file=log); log.close()
shutil.rmtree(base, ignore_errors=True)
sys.exit(1 if bad else 0)
